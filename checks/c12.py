"""C12 - each cluster is fitted to exactly its own windows, with the requested
estimator; the optimiser receives that covariance, the user's lambda, W, N.

E2 monitor on the statistics-phase output and on the arguments of every
optimiser call, every round, every cluster, biased in {False, True}, including
rounds after a repopulation; reference = explicit two-pass fsum statistics.
"""
from vlib import mainloop as ml
from vlib import drivers  # noqa: F401

LEVEL = "model_checking"
MONS = ["C12"]


def run(ctx):
    from vlib import lib
    lib.load("nojit")
    L = 20
    if ctx.thorough:
        menu = [("k2a", [1, L], 2), ("k2b", [L], 1), ("k2m1", [1, L], 2), ("k2mat", [1, L], 1),
                ("k2eps", [L], 1), ("k2w3", [L], 1), ("k3a", [L], 1), ("k3b", [L], 0), ("k2seed", [L], 1),
                ("k2tiny", [L], 1), ("k2huge", [L], 1), ("k2eps2", [L], 1), ("k2off", [L], 1)]
    else:
        menu = [("k2a", [L], 1), ("k2m1", [2, L], 1), ("k2mat", [L], 0), ("k2seed", [L], 0), ("k2tiny", [L], 0),
                ("k2huge", [2], 0), ("k2eps2", [2], 0), ("k2off", [2], 0)]
    ps = ml.e2_plans(ctx, menu, MONS)
    ml.explore(ctx, ps)
    ml.e2_describe(ctx, ps, "Monitor: mean/covariance of every cluster in every round vs two-pass fsum "
                   "reference over exactly the windows labelled k (tolerance 1e-10 x spread^2 + 256 eps |x| spread: what a mean-subtracting estimator can lose); optimiser "
                   "arguments and stored MRF vs the optimiser's own answer.")


def replay(ctx, case):
    ml.replay_case(ctx, case, MONS, conform=True)
