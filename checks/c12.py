"""C12 - each cluster is fitted to exactly its own windows, with the requested
estimator; the optimiser receives that covariance, the user's lambda, W, N.

E2 monitor on the statistics-phase output and on the arguments of every
optimiser call, every round, every cluster, biased in {False, True}, including
rounds after a repopulation; reference = explicit two-pass fsum statistics.
"""
from vlib import mainloop as ml
from vlib import drivers  # noqa: F401

LEVEL = "model_checking"
MONS = ["C12"]


def work_pairs(task):
    """Runs of DIFFERENT problems back to back in one process, started from the same initial labelling
    (equal member lists, different data / estimator): nothing may be remembered from the previous run."""
    from vlib import lib
    from vlib.ctx import Acc, stopped
    lib.load("nojit")
    (names, seed, inits, limit) = task
    acc = Acc()
    ds = [ml.get_driver(n, seed) for n in names]
    for init in inits:
        if stopped():
            break
        for d in ds:
            rec = ml.real_run(d, init, limit, (), entry="fit")
            acc.n += 1
            if rec.error is not None:
                acc.count("runs_raised", type(rec.error).__name__)
                continue
            acc.nontrivial += 1
            for (msg, sig) in ml.MONITORS["C12"](rec):
                acc.fail({"kind": "pairs", "drivers": list(names), "driver": d.name, "seed": seed, "init": list(init),
                          "limit": limit}, f"driver {d.name} right after the other driver(s) {list(names)}: " + msg, sig)
    acc.sample({"kind": "pairs", "drivers": list(names), "inits": len(inits), "limit": limit})
    return acc.result()


def run(ctx):
    from vlib import lib
    lib.load("nojit")
    # same (T', K), different data and estimator: k2a (unbiased), k2m1 (biased, other data), k2tiny (biased, 1e-4 scale)
    trio = ("k2a", "k2m1", "k2tiny")
    d0 = ml.get_driver(trio[0], ctx.seed)
    pinits = ml.all_labellings(d0.Tp, d0.K)
    if not ctx.thorough:
        pinits = pinits[::3]
    for r in ctx.pmap(work_pairs, [(trio, ctx.seed, pinits[lo:lo + 6], 3) for lo in range(0, len(pinits), 6)]):
        ctx.take(r)
    L = 20
    if ctx.thorough:
        menu = [("k2a", [1, L], 2), ("k2b", [L], 1), ("k2m1", [1, L], 2), ("k2mat", [1, L], 1),
                ("k2eps", [L], 1), ("k2w3", [L], 1), ("k3a", [L], 1), ("k3b", [L], 0), ("k2seed", [L], 1),
                ("k2tiny", [L], 1), ("k2huge", [L], 1), ("k2eps2", [L], 1), ("k2off", [L], 1), ("k2w1", [L], 1), ("k2w1u", [L], 1)]
    else:
        menu = [("k2a", [L], 1), ("k2m1", [2, L], 1), ("k2mat", [L], 0), ("k2seed", [L], 0), ("k2tiny", [L], 0),
                ("k2huge", [2], 0), ("k2eps2", [2], 0), ("k2off", [2], 0), ("k2w1", [2], 0), ("k2w1u", [2], 0)]
    ps = ml.e2_plans(ctx, menu, MONS)
    # eleven clusters (block initial labelling: cluster k = level k) and an upper-triangular sparsity weight
    ps += ml.e2_plans(ctx, [("k11", [2], 0)], MONS, conform=False,
                      inits=lambda d: [tuple(i // 4 for i in range(d.Tp)), tuple(10 - i // 4 for i in range(d.Tp))])
    ps += ml.e2_plans(ctx, [("k2triu", [3], 0)], MONS, conform=False,
                      inits=lambda d: ml.all_labellings(d.Tp, d.K)[::17])
    # the estimator flag in its other truth-valued forms (block initial labellings: the flag, not the labelling, varies)
    ps += ml.e2_plans(ctx, [("k2nptrue", [3], 0), ("k2int1", [3], 0), ("k2npfalse", [3], 0)], MONS, conform=False,
                      inits=lambda d: ml.all_labellings(d.Tp, d.K)[::17])
    ps += ml.e2_plans(ctx, [("long6k", [3], 0)], MONS, conform=False, inits=drivers.long_inits)
    ml.explore(ctx, ps)
    ml.e2_describe(ctx, ps, "Also: three problems with equal (T',K) but different data and estimator (k2a, k2m1, "
                   "k2tiny) run back to back in one process from the same initial labelling (every 3rd; thorough "
                   "every), limit 3. Monitor: mean/covariance of every cluster in every round vs two-pass fsum "
                   "reference over exactly the windows labelled k (tolerance 1e-10 x spread^2 + 256 eps |x| spread: what a mean-subtracting estimator can lose); optimiser "
                   "arguments and stored MRF vs the optimiser's own answer.")


def replay(ctx, case):
    if case.get("kind") == "pairs":
        ctx.take(work_pairs((tuple(case["drivers"]), case["seed"], [tuple(case["init"])], case["limit"])))
        return
    ml.replay_case(ctx, case, MONS, conform=True)
