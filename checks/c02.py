"""C02 - the cluster MRF is the block-Toeplitz graphical-lasso optimum.

E1 over an exhaustive spectral grid: S = Q diag(e) Q^T for every eigenvalue
tuple over {0.25,1,4} (plus rank-deficient and rescaled families), three
bases, lambda as scalar / constant matrix / non-constant matrices, step
configurations rho in {0.1,1,10} and a residual-balancing rho callback.
Oracle: a KKT certificate computed from (S, lambda, returned Theta, public
tolerances) only - it does not mention rho (DESIGN.md C02).
"""
import itertools
import math

import numpy as np

from vlib import codec, refs
from vlib.ctx import Acc, HarnessError, stopped

LEVEL = "exploration"
SLACK = 1.5
BUDGET = 1000


def boyd(rho, rp, tp, rd, td):
    if rp > 10 * rd:
        return rho * 2
    if rd > 10 * rp:
        return rho / 2
    return rho


def bases(n, seed):
    qs = [("identity", np.eye(n))]
    if n > 1:
        v = np.ones((n, 1)) / math.sqrt(n)
        qs.append(("householder", np.eye(n) - 2 * v @ v.T))
        rng = np.random.default_rng(10007 + seed)
        qs.append(("dense", np.linalg.qr(rng.normal(size=(n, n)))[0]))
    return qs


def lambdas(n, N, W, seed):
    out = [("float", v) for v in (0.0, 1e-3, 0.11, 0.5, 1.0, 5.0)]
    out.append(("const_matrix", np.full((n, n), 0.11)))
    # graded per block distance
    g = np.empty((n, n))
    for i in range(n):
        for j in range(n):
            g[i, j] = 0.05 * (1 + abs(i // N - j // N)) + 0.02 * ((i % N) == (j % N))
    out.append(("graded_matrix", g))
    rng = np.random.default_rng(20011 + seed)
    m = np.abs(rng.normal(size=(n, n))) * 0.3
    out.append(("seeded_matrix", (m + m.T) / 2))
    return out


def eig_tuples(n, alphabet, full_upto=3):
    if n <= full_upto:
        return list(itertools.product(alphabet, repeat=n))
    ms = list(itertools.combinations_with_replacement(alphabet, n))
    out = []
    for t in ms:
        out.append(tuple(t))
        if tuple(reversed(t)) != tuple(t):
            out.append(tuple(reversed(t)))
    return out


def cases_for_shape(N, W, tier, seed):
    """yield (family, e, basis name, Q, lam name, lam, rho, callback?)"""
    n = N * W
    big = n > 12
    qs = bases(n, seed)
    lams = lambdas(n, N, W, seed)
    full = 4 if tier == "thorough" else 3
    if big:
        ets = [tuple([0.25, 1.0, 4.0][i % 3] for i in range(n)), tuple([4.0] * (n // 2) + [0.25] * (n - n // 2))]
    elif n > 6 or (n > 4 and tier == "quick"):
        ets = eig_tuples(n, (0.25, 1.0, 4.0), 0)
        ets = ets[::max(1, len(ets) // 12)][:12] if tier == "quick" else ets[::max(1, len(ets) // 40)][:40]
    else:
        ets = eig_tuples(n, (0.25, 1.0, 4.0), full)
    steps_all = [(1.0, False)]
    steps_more = [(0.1, False), (10.0, False), (1.0, True)]
    for (qn, Q) in qs:
        for e in ets:
            for (ln, lam) in lams:
                if big and ln not in ("float", "graded_matrix"):
                    continue
                if big and ln == "float" and lam not in (0.11, 1.0):
                    continue
                steps = list(steps_all)
                if (ln == "float" and lam in (0.0, 0.11)) or ln == "graded_matrix":
                    steps += steps_more
                for (rho, cb) in steps:
                    yield ("main", e, qn, Q, ln, lam, rho, cb, 1.0)
    if big:
        return
    # conditional clause only: rank-deficient S and rescaled S
    if n <= 4:
        zt = [t for t in itertools.product((0.0, 1.0, 4.0), repeat=n) if 0.0 in t and any(t)]
        for (qn, Q) in qs:
            for e in zt:
                for (ln, lam) in lams:
                    if ln == "float" and lam in (1e-3, 0.11, 1.0):
                        yield ("rank_deficient", e, qn, Q, ln, lam, 1.0, False, 1.0)
    for scale in (1e-3, 1e3):
        for (qn, Q) in qs:
            for e in eig_tuples(n, (0.25, 1.0, 4.0), 0)[:10]:
                for (rho, cb) in ((1.0, False), (1.0, True)):
                    yield ("scaled", e, qn, Q, "float", 0.11, rho, cb, scale)


class Probe:
    def __init__(self):
        self.xupdates = 0
        self.checks = 0
        self.last = None
        self.total = 0          # probe hits in this process, over all solves


PROBE = Probe()


def install_probe():
    from fast_ticc.admm import solver
    if getattr(solver, "_verif_probed", False):
        return
    ox, oc = solver.admm_update_x, solver.check_convergence

    def px(*a, **k):
        PROBE.xupdates += 1
        PROBE.total += 1
        return ox(*a, **k)

    def pc(*a, **k):
        r = oc(*a, **k)
        PROBE.checks += 1
        PROBE.total += 1
        try:
            PROBE.last = bool(r[0])
        except Exception:
            PROBE.last = None
        return r
    solver.admm_update_x = px
    solver.check_convergence = pc
    solver._verif_probed = True


_LAMBUF = {}


def solve(S, lam, W, N, rho, cb, budget=BUDGET):
    from fast_ticc import admm
    PROBE.xupdates = PROBE.checks = 0
    PROBE.last = None
    if isinstance(lam, np.ndarray):
        # a caller that keeps ONE penalty matrix and refills it between solves: the result may depend
        # on the matrix's contents only, never on its identity
        buf = _LAMBUF.setdefault(lam.shape, np.empty(lam.shape))
        buf[:] = lam
        lam = buf
    res = admm.admm_optimize_theta(S.copy(), lam, W, N, rho=rho, rho_update=boyd if cb else None,
                                   max_iterations=budget, absolute_tolerance=1e-6, relative_tolerance=1e-6)
    if PROBE.xupdates == 0 and PROBE.checks == 0:
        # returned without iterating (an answer kept from an earlier call?): it claims a minimiser all the same.
        # That the probes work at all is asserted per worker (PROBE.total, see work()).
        return res.theta, 0, True
    iters = PROBE.xupdates if PROBE.xupdates else PROBE.checks + 1
    stopped_by_rule = iters < budget or (PROBE.last is True)
    return res.theta, iters, stopped_by_rule


def judge(N, W, fam, e, Q, lam, rho, cb, scale):
    """returns (message or None, info dict)"""
    from fast_ticc import matrix_compression as mc
    n = N * W
    S = (Q * np.array(e)) @ Q.T * scale
    S = (S + S.T) / 2
    try:
        theta_c, iters, ok = solve(S, lam, W, N, rho, cb)
    except HarnessError:
        raise
    except Exception as ex:
        # gave up before its budget without returning a minimiser
        return (f"raised {type(ex).__name__}: {ex} after {PROBE.xupdates} iterations instead of returning "
                f"a minimiser"), {"iters": PROBE.xupdates, "stopped": False, "raised": True}
    info = {"iters": iters, "stopped": ok}
    if not ok:
        uncond = (fam == "main" and rho == 1.0 and not cb and
                  ((not isinstance(lam, np.ndarray) and lam <= 1.0) or
                   (isinstance(lam, np.ndarray) and float(lam.max()) <= 1.0)))
        if uncond:
            return (f"did not stop within {BUDGET} iterations with default step, lambda<=1, "
                    f"eigenvalues {e} in [0.25,4]"), info
        return None, info
    theta_c = np.asarray(theta_c)
    if theta_c.shape != (n * (n + 1) // 2,):
        return f"returned vector has shape {theta_c.shape}", info
    if not np.all(np.isfinite(theta_c)):
        return "returned Theta has non-finite entries", info
    x = mc.reinflate_matrix(theta_c)
    if not np.array_equal(x, x.T):
        return "Theta is not symmetric", info
    try:
        np.linalg.cholesky(x)
    except np.linalg.LinAlgError:
        return f"Theta is not positive definite (min eig {np.linalg.eigvalsh(x)[0]:.3g})", info
    if np.linalg.cond(x) > 1e8:
        info["illcond"] = True
        return None, info
    kkt, toep, detail = refs.kkt_certificate(S, lam, W, N, x)
    info["kkt"] = kkt
    info["toep"] = toep
    # rounding allowance: G = S - inv(x) carries ~cond(x)*eps relative error
    allow = 1e-9
    if toep > 1.0 + allow:
        return (f"not block-Toeplitz to within the stopping tolerance: within-class spread is "
                f"{toep:.3f} x (2 eps_pri)"), info
    if kkt > SLACK + allow:
        return (f"not a minimiser to within the stopping tolerance: KKT residual of class {detail['class']} is "
                f"{kkt:.3f} x bound (g={detail['g']:.6g}, lambda sum={detail['l']:.6g}, mean={detail['m']:.6g})"), info
    return None, info


def work(task):
    from vlib import lib
    lib.load("nojit")
    install_probe()
    (N, W, tier, seed, part, nparts) = task
    acc = Acc()
    for idx, (fam, e, qn, Q, ln, lam, rho, cb, scale) in enumerate(cases_for_shape(N, W, tier, seed)):
        if idx % nparts != part:
            continue
        if stopped():
            break
        acc.n += 1
        if fam == "main" and idx % 3 == 0:
            # the caller first tries the identical problem with a budget of 3 iterations (too few), then asks again
            # with the full budget: the second answer is judged like any other
            Ss = (Q * np.array(e)) @ Q.T * scale
            try:
                solve((Ss + Ss.T) / 2, lam, W, N, rho, cb, budget=3)
                acc.count("starved_first")
            except HarnessError:
                raise
            except Exception:
                pass
        msg, info = judge(N, W, fam, e, Q, lam, rho, cb, scale)
        starved = fam == "main" and idx % 3 == 0
        if msg and starved:
            msg = "(asked first with max_iterations=3, then with the full budget) " + msg
        acc.count("family", fam)
        if info["stopped"]:
            acc.count("stopped_by_rule")
            if "kkt" in info:
                acc.count("certified")
                acc.peak("max_kkt_ratio", info["kkt"])
                acc.peak("max_toeplitz_ratio", info["toep"])
                if len(set(e)) > 1 or qn != "identity":
                    acc.nontrivial += 1
            elif info.get("illcond"):
                acc.count("ill_conditioned_not_judged")
            if fam == "main" and rho == 1.0 and not cb:
                acc.peak("max_iterations_default_step", info["iters"])
        else:
            acc.count("budget_exhausted_not_judged")
        if msg:
            acc.fail({"N": N, "W": W, "family": fam, "e": list(e), "basis": qn, "lambda_kind": ln,
                      "lambda": codec.enc(lam) if isinstance(lam, np.ndarray) else lam, "rho": rho,
                      "callback": cb, "scale": scale, "seed": seed, "starved_first": starved}, f"(N,W)=({N},{W}) {ln} rho={rho} cb={cb}: " + msg)
        if idx == 7 * (1 + seed % 5):
            acc.sample({"N": N, "W": W, "family": fam, "eigenvalues": list(e), "basis": qn, "lambda": ln,
                        "rho": rho, "callback": cb, "iterations": info["iters"], "kkt_ratio": info.get("kkt")})
    if acc.n and PROBE.total == 0:
        raise HarnessError("solver probes were never reached in this worker (update/convergence functions renamed?)")
    return acc.result()


def shapes(tier):
    if tier == "quick":
        # NW <= 4 in full; (2,3) and (3,2) on a reduced eigenvalue menu so that N>=2 with W>=3 is reached
        # NW = 24 in three factorisations: more than 255 compressed entries (300), many classes / long classes
        return [(N, W) for N in range(1, 5) for W in range(1, 5) if N * W <= 4] + [(2, 3), (3, 2)] + \
            [(4, 6), (2, 12), (1, 24)]
    sh = [(N, W) for N in range(1, 13) for W in range(1, 13) if N * W <= 12]
    sh += [(6, 10), (10, 6), (4, 15), (2, 30), (1, 60)]
    return sh


def run(ctx):
    from vlib import lib
    lib.load("nojit")
    tasks = []
    for (N, W) in shapes(ctx.tier):
        nparts = 16 if N * W >= 3 else 2
        if N * W > 12:
            nparts = 32
        for part in range(nparts):
            tasks.append((N, W, ctx.tier, ctx.seed, part, nparts))
    tasks.sort(key=lambda t: -(t[0] * t[1]))
    for r in ctx.pmap(work, tasks):
        ctx.take(r)
    ctx.cov["exhaustive"] = True
    ctx.cov["shapes"] = [list(s) for s in shapes(ctx.tier)]
    ctx.cov["rule"] = (
        "S = Q diag(e) Q^T: every e in {0.25,1,4}^NW for NW<=3 (thorough <=4), every multiset ascending+descending "
        "beyond (12 evenly spaced ones for NW in {5,6} quick / NW>6), x {identity, Householder(1), seeded dense} bases x lambda {0,1e-3,0.11,0.5,1,5} floats, constant "
        "matrix, block-graded matrix, seeded matrix x step {rho=1} for all and {rho=0.1, rho=10, rho=1+residual "
        "balancing callback} for lambda in {0, 0.11, graded}; conditional-only families: rank-deficient "
        "e in {0,1,4}^NW, S scaled by 1e-3/1e3. Every third case of the main family is first asked with max_iterations=3 and then again with the full budget (the answer judged is the second). Verdict: KKT certificate (slack 1.5) + Toeplitz spread + symmetry + "
        "Cholesky on every solve that stopped by its rule; not stopping within 1000 iterations is a violation only "
        "on the unconditional sub-grid. non-trivial = certified solves with non-scalar S")
    ctx.assumptions += [
        "stopping-rule constants (abs/rel tolerance 1e-6, +1e-4) are those documented on the public entry point",
        "iterations used are observed through harness-side counting proxies on the solver's update/convergence functions",
        "the certificate is evaluated only where cond(Theta) <= 1e8"]


def replay(ctx, case):
    from vlib import lib
    lib.load("nojit")
    install_probe()
    N, W = case["N"], case["W"]
    n = N * W
    Q = dict(bases(n, case["seed"]))[case["basis"]]
    lam = codec.dec(case["lambda"]) if isinstance(case["lambda"], dict) else case["lambda"]
    if case.get("starved_first"):
        Ss = (Q * np.array(case["e"])) @ Q.T * case["scale"]
        try:
            solve((Ss + Ss.T) / 2, lam, W, N, case["rho"], case["callback"], budget=3)
        except HarnessError:
            raise
        except Exception:
            pass
    msg, info = judge(N, W, case["family"], tuple(case["e"]), Q, lam, case["rho"], case["callback"], case["scale"])
    ctx.cov["evaluations"] = 1
    if msg:
        ctx.violation(case, msg)
