"""C11 - compressed-matrix and Toeplitz-class index maps are exact bijections.

E1, complete over the stated ranges: n in 1..150 (compression maps, closed-form
index); all (N,W) with N<=10, W<=14 (class maps).  Also re-checks every cached
list after use (the memoised helpers hand out shared mutable objects).
"""
import numpy as np

from vlib import refs
from vlib.ctx import Acc, stopped

LEVEL = "exploration"


def work_compress(task):
    from vlib import lib
    lib.load("nojit")
    from fast_ticc import matrix_compression as mc
    from fast_ticc.admm import unique_values as uv
    acc = Acc()
    for n in task:
        if stopped():
            break
        case = {"kind": "compress", "n": n}
        m = n * (n + 1) // 2
        # symmetric matrix of pairwise distinct integers on the upper triangle
        A = np.zeros((n, n))
        iu = np.triu_indices(n)
        A[iu] = np.arange(1, m + 1, dtype=np.float64) * 3 + 1
        A = A + A.T - np.diag(np.diag(A))
        keep = A.copy()
        v = mc.compress_matrix(A)
        acc.n += 1
        if not np.array_equal(A, keep):
            acc.fail(case, "compress_matrix modified its input")
        want = np.array([A[r, c] for r in range(n) for c in range(r, n)])
        if np.shape(v) != (m,) or not np.array_equal(v, want):
            acc.fail(case, "compressed form is not the row-major upper triangle")
            continue
        # hold the compressed form, compress another matrix of the same size, then use the first
        A2 = A * 2.0 + 7.0
        v2 = mc.compress_matrix(A2)
        if not np.array_equal(v, want):
            acc.fail(case, "the compressed form of A changed when another matrix of the same size was compressed")
        R2 = mc.reinflate_matrix(v2)
        B = mc.reinflate_matrix(v)
        if np.shape(B) != (n, n) or not np.array_equal(B, A):
            acc.fail(case, "reinflate(compress(A)) != A")
        if not np.array_equal(R2, A2) or np.shares_memory(B, R2) or np.shares_memory(v, v2):
            acc.fail(case, "results of two compress / reinflate calls share memory or differ from their inputs")
        # the other direction, on an arbitrary vector of distinct values (negative, non-monotone)
        vec = ((np.arange(m, dtype=np.float64) * 7919) % 104729) - 50000.5
        keepv = vec.copy()
        M = mc.reinflate_matrix(vec)
        acc.n += 1
        if not np.array_equal(vec, keepv):
            acc.fail(case, "reinflate_matrix modified its input")
        if np.shape(M) != (n, n) or not np.array_equal(M, M.T):
            acc.fail(case, "reinflated matrix is not symmetric n x n")
            continue
        if not np.array_equal(mc.compress_matrix(M), vec):
            acc.fail(case, "compress(reinflate(v)) != v")
        # closed-form index == row-major rank, for all 0 <= r <= c < n
        rank = 0
        bad = None
        for r in range(n):
            for c in range(r, n):
                acc.n += 1
                got = uv._compressed_index(r, c, n)
                if got != rank or isinstance(got, bool) or int(got) != got:
                    bad = (r, c, got, rank)
                    break
                rank += 1
            if bad:
                break
        if bad:
            acc.fail({"kind": "index", "n": n, "r": bad[0], "c": bad[1]},
                     f"_compressed_index({bad[0]},{bad[1]},{n}) = {bad[2]!r}, row-major rank is {bad[3]}")
        if n > 1:
            acc.nontrivial += 1
    acc.sample({"kind": "compress", "n": list(task)[:3]})
    return acc.result()


def class_check(uv, N, W, acc):
    n = N * W
    case = {"kind": "classes", "N": N, "W": W}
    ref = refs.toeplitz_classes(N, W)
    seen = {}
    for b in range(W):
        for r in range(N):
            for c in range(r if b == 0 else 0, N):
                acc.n += 1
                comp = [int(x) for x in uv.locations_compressed(b, r, c, N, W)]
                rows, cols = uv.locations_index_slices(b, r, c, N, W)
                rows, cols = [int(x) for x in rows], [int(x) for x in cols]      # plain ints: no dtype arithmetic in the oracle
                pos = list(zip(rows, cols))
                if len(pos) != W - b or len(set(pos)) != len(pos):
                    acc.fail(case, f"class ({b},{r},{c}) holds {len(pos)} positions "
                                   f"({len(set(pos))} distinct), expected {W - b}")
                    return
                for (i, j) in pos:
                    if not (0 <= i <= j < n):
                        acc.fail(case, f"class ({b},{r},{c}) names ({i},{j}) outside the upper triangle")
                        return
                    if (j // N - i // N, i % N, j % N) != (b, r, c):
                        acc.fail(case, f"class ({b},{r},{c}) contains ({i},{j}) which is Toeplitz class "
                                       f"{(j // N - i // N, i % N, j % N)}")
                        return
                    if (i, j) in seen:
                        acc.fail(case, f"position ({i},{j}) is in classes {seen[(i, j)]} and {(b, r, c)}")
                        return
                    seen[(i, j)] = (b, r, c)
                want = [refs.row_major_rank(i, j, n) for (i, j) in pos]
                if sorted(int(x) for x in comp) != sorted(want) or len(comp) != len(want):
                    acc.fail(case, f"class ({b},{r},{c}): compressed indices {comp} do not name the "
                                   f"positions {pos} (expected {want})")
                    return
                if sorted(pos) != sorted(ref[(b, r, c)]):
                    acc.fail(case, f"class ({b},{r},{c}) misses positions of its class")
                    return
    total = n * (n + 1) // 2
    if len(seen) != total:
        acc.fail(case, f"classes cover {len(seen)} of the {total} upper-triangle positions")
        return
    if W > 1 and N > 1:
        acc.nontrivial += 1


def work_classes(task):
    from vlib import lib
    lib.load("nojit")
    from fast_ticc.admm import unique_values as uv
    from fast_ticc import admm
    acc = Acc()
    for (N, W) in task:
        if stopped():
            break
        class_check(uv, N, W, acc)
        if N * W <= 12:
            # use the caches the way the solver does, then re-verify them: a
            # caller that mutates a cached list would be caught here
            S = np.eye(N * W) + 0.1
            lam = np.full((N * W, N * W), 0.1)
            admm.admm_optimize_theta(S, lam, W, N, max_iterations=3)
            admm.admm_optimize_theta(S, 0.1, W, N, max_iterations=3)
            class_check(uv, N, W, acc)
    acc.sample({"kind": "classes", "NW": [list(t) for t in list(task)[:3]]})
    return acc.result()


def related(A):
    """shapes whose helper arguments could collide with A's under a coarser cache key"""
    (N, W) = A
    out = []
    for n in range(1, 11):
        for w in range(1, 15):
            if (n, w) != A and (n == N or w == W or n * w == N * W or (n, w) == (W, N)):
                out.append((n, w))
    return out


def work_after(task):
    """fresh process: use shape A first (memoised helpers warm up on it), then every related
    shape B must still get its own, correct lists - the maps may not depend on call history"""
    from vlib import lib
    lib.load("nojit")
    from fast_ticc.admm import unique_values as uv
    acc = Acc()
    for A in task:
        class_check(uv, A[0], A[1], acc)
        for B in related(A):
            before = len(acc.fails)
            class_check(uv, B[0], B[1], acc)
            if len(acc.fails) > before:
                (c, m, sg) = acc.fails[-1]
                acc.fails[-1] = (dict(c, kind="after", first=list(A)), f"after shape (N,W)={A} was used first: " + m, sg)
                return acc.result()
    return acc.result()


def run(ctx):
    from vlib import lib
    lib.load("nojit")
    ns = list(range(1, 151))
    chunks = [ns[i::16] for i in range(14)] + [ns[14::16][::-1], ns[15::16][::-1]]
    # sizes in descending and interleaved order inside one process (helpers may not remember earlier sizes)
    chunks += [list(range(150, 0, -7)), [150, 3, 149, 2, 107, 1, 64, 5, 128, 129, 12, 255 % 151, 40]]
    for r in ctx.pmap(work_compress, chunks):
        ctx.take(r)
    pairs = [(N, W) for N in range(1, 11) for W in range(1, 15)]
    pairs.sort(key=lambda p: -(p[0] * p[1]))
    chunks = [pairs[i::16] for i in range(16)]
    for r in ctx.pmap(work_classes, chunks):
        ctx.take(r)
    # history independence: every shape A used first in a brand-new process, then all related shapes
    from vlib import realpool
    firsts = [(N, W) for N in range(1, 11) for W in range(1, 15)]
    if not ctx.thorough:
        firsts = [(N, W) for (N, W) in firsts if N * W <= 40]
    groups = [firsts[i::32] for i in range(32)]
    # one A per fresh process would be exact; grouping keeps it cheap while the FIRST shape of every
    # group still meets cold caches.  Groups are rotated so that every A is first in some process.
    tasks = []
    for g in groups:
        tasks.append(g)
    for A in firsts:
        tasks.append([A])
    for r in realpool.fresh_map(work_after, tasks, jobs=16, timeout=300):
        ctx.take(r)
    ctx.cov["history_first_shapes"] = len(firsts)
    ctx.cov["exhaustive"] = True
    ctx.cov["rule"] = (
        "history independence: each (N,W) (quick: NW<=40; thorough: all 140) used FIRST in a brand-new process, "
        "then every shape sharing N, W, N*W or the swapped pair re-checked; "
        "n in 1..150: compress/reinflate round trips on distinct integers (exact) and _compressed_index(r,c,n) "
        "== row-major rank for all 0<=r<=c<n; all 140 (N,W) with N<=10, W<=14: class position lists partition "
        "the upper triangle, |class| = W-b, members agree with the definition (j//N-i//N, i%N, j%N), compressed "
        "and (row,col) forms name the same positions; caches re-verified after ADMM solves for NW<=12; "
        "non-trivial = n>1 / N>1 and W>1")


def replay(ctx, case):
    from vlib import lib
    lib.load("nojit")
    if case["kind"] in ("compress", "index"):
        ctx.take(work_compress([case["n"]]))
    elif case["kind"] == "after":
        from vlib import realpool
        for r in realpool.fresh_map(work_after, [[tuple(case["first"])]]):
            ctx.take(r)
    else:
        ctx.take(work_classes([(case["N"], case["W"])]))
