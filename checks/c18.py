"""C18 - equivalent parameter forms give identical results.

E1: (i) optimiser entry point over a spectral grid of covariances: scalar
lambda vs the constant matrix, and the same scalar in every real numeric type;
(ii) labelling step over the C01 quick alphabet: scalar beta vs constant
vector and numeric types; (iii) end to end on the smallest main-loop driver,
every initial labelling, each hyper-parameter (lambda, beta, eps) in each
equivalent form: complete results compared bitwise.
"""
import itertools

import numpy as np

from vlib import mainloop as ml
from vlib import drivers  # noqa: F401
from vlib.ctx import Acc, stopped
from checks.c02 import bases, eig_tuples
from checks.c07 import FIELDS, same_value

LEVEL = "exploration"


def scalar_forms(v):
    """same numeric value in every real type that can hold it exactly"""
    out = [("float", float(v)), ("np.float64", np.float64(v)), ("np.float32", np.float32(v)),
           ("np.float16", np.float16(v))]
    if float(v) == int(v):
        out += [("int", int(v)), ("np.int64", np.int64(v)), ("np.int32", np.int32(v)), ("np.uint8", np.uint8(v))]
    return [(n, x) for (n, x) in out if float(x) == float(v)]


_LBUF = {}


def work_admm(task):
    from vlib import lib
    lib.load("nojit")
    from fast_ticc import admm
    if len(task) == 3 and isinstance(task[1], (list, tuple)):
        # several window sizes for one N in ONE process, in the given order
        merged = Acc()
        for W in task[1]:
            r = work_admm((task[0], W, task[2], 0, 9))
            merged.n += r["n"]
            merged.nontrivial += r["nontrivial"]
            merged.fails += r["fails"]
        merged.sample({"kind": "admm_sequence", "N": task[0], "W_order": list(task[1])})
        return merged.result()
    (N, W, seed, part, nparts) = task
    n = N * W
    acc = Acc()
    for (qn, Q) in bases(n, seed):
        for ei, e in enumerate(eig_tuples(n, (0.25, 1.0, 4.0), 3)):
            if ei % nparts != part:
                continue
            if stopped():
                return acc.result()
            S = (Q * np.array(e)) @ Q.T
            S = (S + S.T) / 2
            case0 = {"kind": "admm", "N": N, "W": W, "e": list(e), "basis": qn, "seed": seed}
            ref = {}
            for v in (0.25, 0.5, 1.0, 2.0, 0.0, 0.11, 0.3):
                base = admm.admm_optimize_theta(S.copy(), float(v), W, N).theta
                ref[v] = base
                # scalar vs constant matrix
                acc.n += 1
                acc.nontrivial += 1
                LBUF = _LBUF.setdefault(n, np.empty((n, n)))
                LBUF[:] = float(v)            # one penalty matrix object, refilled between solves
                got = admm.admm_optimize_theta(S.copy(), LBUF, W, N).theta
                fresh = admm.admm_optimize_theta(S.copy(), np.full((n, n), float(v)), W, N).theta
                if fresh.tobytes() != got.tobytes():
                    acc.fail(dict(case0, form="matrix_identity", v=v),
                             f"lambda={v}: a refilled matrix object and a fresh matrix with the same contents give different Theta")
                dyadic = v in (0.25, 0.5, 1.0, 2.0, 0.0)
                if dyadic:
                    ok = got.tobytes() == base.tobytes()
                else:
                    ok = np.allclose(got, base, rtol=1e-9, atol=1e-12)
                if not ok:
                    acc.fail(dict(case0, form="matrix", v=v),
                             f"lambda={v} as float and as constant {n}x{n} matrix give different Theta "
                             f"(max diff {float(np.max(np.abs(got - base))):.3g})")
                # numeric types
                if v in (0.0, 1.0, 2.0, 0.5, 0.25):
                    for (tn, x) in scalar_forms(v):
                        if tn == "float":
                            continue
                        acc.n += 1
                        try:
                            got = admm.admm_optimize_theta(S.copy(), x, W, N).theta
                        except Exception as ex:
                            acc.fail(dict(case0, form=tn, v=v), f"lambda={v} as {tn} raises {type(ex).__name__}: {ex}")
                            continue
                        if got.tobytes() != base.tobytes():
                            acc.fail(dict(case0, form=tn, v=v),
                                     f"lambda={v} as {tn} and as float give different Theta")
            # scalar vs constant matrix under an adaptive rho callback (terms that depend on rho may not be cached)
            from checks.c02 import boyd
            for v in (0.25, 1.0):
                acc.n += 1
                a = admm.admm_optimize_theta(S.copy(), float(v), W, N, rho=1.0, rho_update=boyd, max_iterations=300).theta
                b = admm.admm_optimize_theta(S.copy(), np.full((n, n), float(v)), W, N, rho=1.0, rho_update=boyd,
                                             max_iterations=300).theta
                if a.tobytes() != b.tobytes():
                    acc.fail(dict(case0, form="matrix+callback", v=v),
                             f"lambda={v} with a rho_update callback: float and constant matrix give different Theta "
                             f"(max diff {float(np.max(np.abs(a - b))):.3g})")
            # a non-default step size, and ONE matrix object serving two consecutive solves without being refilled
            for v in (0.25, 1.0):
                for rho in (2.0, 0.5):
                    a = admm.admm_optimize_theta(S.copy(), float(v), W, N, rho=rho, max_iterations=300).theta
                    M = np.full((n, n), float(v))
                    for use in (1, 2):
                        acc.n += 1
                        b = admm.admm_optimize_theta(S.copy(), M, W, N, rho=rho, max_iterations=300).theta
                        if not np.allclose(a, b, rtol=1e-9, atol=1e-12):
                            acc.fail(dict(case0, form="matrix+rho", v=v, rho=rho, use=use),
                                     f"lambda={v}, rho={rho}: float and constant matrix (the matrix object's use no. {use}) give "
                                     f"different Theta (max diff {float(np.max(np.abs(a - b))):.3g})")
                            break
            # the covariance floor in every scalar type, through the real optimisation phase: 2^-13 squared
            # underflows in float16, entries the solver leaves just above zero sit below it
            from checks.c03 import run_phase
            base_eps = None
            for (tn, x) in (("float", 2.0 ** -13), ("np.float64", np.float64(2.0 ** -13)), ("np.float32", np.float32(2.0 ** -13)),
                            ("np.float16", np.float16(2.0 ** -13))):
                acc.n += 1
                try:
                    th = run_phase(N, W, [S], 1.0, x).clusters[0].train_inverse
                except np.linalg.LinAlgError:
                    continue
                except Exception as ex:
                    acc.fail(dict(case0, form=tn, v="eps"), f"floor 2^-13 as {tn} raises {type(ex).__name__}: {ex}")
                    continue
                if base_eps is None:
                    base_eps = th
                elif th.tobytes() != base_eps.tobytes():
                    acc.fail(dict(case0, form=tn, v="eps"),
                             f"min_meaningful_covariance = 2^-13 as {tn} and as float give different MRFs "
                             f"({int(np.sum(th != base_eps))} entries differ)")
            # narrow NumPy scalar types holding a value that is NOT a small dyadic: the same numeric value
            # as a Python number must give the same Theta (products must not be formed in the narrow dtype)
            for (tn, x) in (("np.float32", np.float32(0.11)), ("np.float16", np.float16(0.3)),
                            ("np.uint8", np.uint8(100)), ("np.int8", np.int8(50)), ("np.float32", np.float32(3.3))):
                acc.n += 1
                pyv = float(x) if "float" in tn else int(x)
                try:
                    a = admm.admm_optimize_theta(S.copy(), pyv, W, N, max_iterations=200).theta
                    b = admm.admm_optimize_theta(S.copy(), x, W, N, max_iterations=200).theta
                except Exception as ex:
                    acc.fail(dict(case0, form=tn, v=pyv), f"lambda={pyv!r} as {tn} raises {type(ex).__name__}: {ex}")
                    continue
                if a.tobytes() != b.tobytes():
                    acc.fail(dict(case0, form=tn, v=pyv),
                             f"lambda={pyv!r} as Python number and as {tn} of the same value give different Theta "
                             f"(max diff {float(np.max(np.abs(a - b))):.3g})")
    acc.sample({"kind": "admm", "N": N, "W": W})
    return acc.result()


def work_label(task):
    from vlib import lib
    lib.load("nojit")
    from fast_ticc import cluster_label_assignment as cla
    from checks.c01 import tables_block, ALPHABETS
    (T, K) = task
    acc = Acc()
    total = len(ALPHABETS["base3"]) ** (T * K)
    tabs = tables_block(T, K, "base3", 0, total)
    for v in (0.0, 1.0, 2.0, 5.0, 0.5):
        forms = scalar_forms(v) + [("vector", np.full(T, float(v))), ("vector_f32", np.full(T, v, dtype=np.float32)),
                                   ("vector_int", np.full(T, int(v), dtype=np.int64) if float(v) == int(v) else None)]
        for b in range(len(tabs)):
            base = cla.assign_point_cluster_labels(tabs[b], float(v))
            bl = [int(x) for x in base[0]]
            for (tn, x) in forms:
                if x is None or tn == "float":
                    continue
                acc.n += 1
                try:
                    got = cla.assign_point_cluster_labels(tabs[b], x)
                except Exception as ex:
                    acc.fail({"kind": "label", "T": T, "K": K, "table": tabs[b].tolist(), "v": v, "form": tn},
                             f"beta={v} as {tn} raises {type(ex).__name__}: {ex}")
                    continue
                if [int(y) for y in got[0]] != bl or float(got[1]) != float(base[1]):
                    acc.fail({"kind": "label", "T": T, "K": K, "table": tabs[b].tolist(), "v": v, "form": tn},
                             f"beta={v} as {tn}: labels/cost {[int(y) for y in got[0]]}/{float(got[1])} "
                             f"differ from float form {bl}/{float(base[1])}")
            if T > 1 and K > 1:
                acc.nontrivial += 1
    acc.sample({"kind": "label", "T": T, "K": K, "tables": int(total)})
    return acc.result()


def e2e_forms(d):
    """list of (parameter, form name, driver-kwargs)"""
    NW = d.N * d.W
    out = []
    for (tn, x) in scalar_forms(1.0):
        out.append(("lambda", tn, dict(lam=x, beta=1.0, eps=0)))
    out.append(("lambda", "matrix", dict(lam=np.ones((NW, NW)), beta=1.0, eps=0)))
    for (tn, x) in scalar_forms(2.0):
        out.append(("beta", tn, dict(lam=0.5, beta=x, eps=0)))
    out.append(("beta", "vector", dict(lam=0.5, beta=np.full(d.Tp, 2.0), eps=0)))
    for (tn, x) in scalar_forms(0.0):
        out.append(("eps", tn, dict(lam=0.5, beta=1.0, eps=x)))
    for (tn, x) in scalar_forms(0.25):
        out.append(("eps0.25", tn, dict(lam=0.5, beta=1.0, eps=x)))
    # no switching cost at all: ties in the cost table are decided the same way in every form
    for (tn, x) in scalar_forms(0.0):
        out.append(("beta0", tn, dict(lam=0.5, beta=x, eps=0)))
    out.append(("beta0", "vector", dict(lam=0.5, beta=np.zeros(d.Tp), eps=0)))
    return out


def work_e2e(task):
    from vlib import lib
    lib.load("nojit")
    (name, seed, inits, entry) = task[:4]
    opts = task[4] if len(task) > 4 else {}
    acc = Acc()
    d0 = ml.get_driver(name, seed)
    joint = d0.joint
    forms = e2e_forms(d0)
    groups = {}
    for (param, tn, kw) in forms:
        groups.setdefault(param, []).append((tn, kw))
    for init in inits:
        if stopped():
            break
        for param, lst in groups.items():
            if opts.get("params") and param not in opts["params"]:
                continue
            ref = None
            for (tn, kw) in lst:
                d = ml.Driver(f"{name}_{param}_{tn}", d0.series, W=d0.W, K=d0.K, lam=kw["lam"], beta=kw["beta"],
                              m=d0.m, eps=kw["eps"], biased=d0.biased, joint=joint)
                if opts.get("real_random"):
                    # the library's own donor draws from the global generator, seeded identically for every form
                    import random
                    random.seed(4242)
                    np.random.seed(4242)
                rec = ml.real_run(d, init, 6, (), entry=entry, real_random=bool(opts.get("real_random")))
                acc.n += 1
                case = {"kind": "e2e", "driver": name, "seed": seed, "init": list(init), "param": param,
                        "form": tn, "entry": entry, "opts": opts}
                if opts.get("real_random") and rec.error is None and not rec.rng_clean:
                    acc.count("runs_with_real_donor_draws")
                if ref is None:
                    ref = (tn, rec)
                    continue
                a = ref[1]
                if (a.error is None) != (rec.error is None):
                    acc.fail(case, f"{param} as {ref[0]} "
                                   f"{'raised ' + repr(a.error)[:80] if a.error else 'returned'}, as {tn} "
                                   f"{'raised ' + repr(rec.error)[:80] if rec.error else 'returned'}")
                    continue
                if a.error is not None:
                    acc.count("both_raised")
                    continue
                acc.nontrivial += 1
                if not same_value(a.result.point_labels, rec.result.point_labels):
                    acc.fail(case, f"{param} as {ref[0]} vs {tn}: different labels")
                    continue
                for f in FIELDS:
                    if not same_value(getattr(a.result, f), getattr(rec.result, f)):
                        acc.fail(case, f"{param} as {ref[0]} vs {tn}: field {f} differs")
                        break
    acc.sample({"kind": "e2e", "driver": name, "forms": [(p, t) for (p, t, _) in forms][:8], "inits": len(inits)})
    return acc.result()


def run(ctx):
    from vlib import lib
    lib.load("nojit")
    shapes = [(N, W) for N in range(1, 4) for W in range(1, 4) if N * W <= (4 if ctx.thorough else 3)]
    if ctx.thorough:
        shapes += [(2, 2), (1, 4), (4, 1)]
    atasks = [(N, W, ctx.seed, part, 8 if N * W >= 3 else 1) for (N, W) in sorted(set(shapes), key=lambda s: -s[0] * s[1])
              for part in range(8 if N * W >= 3 else 1)]
    # window sizes in ascending and descending order within one process (memoised helpers warm)
    atasks += [(1, [1, 2, 3, 4], ctx.seed), (1, [4, 3, 2, 1], ctx.seed), (2, [1, 2, 3], ctx.seed), (2, [3, 2, 1], ctx.seed)]
    for r in ctx.pmap(work_admm, atasks):
        ctx.take(r)
    lshapes = [(T, K) for T in range(1, 7) for K in range(1, 7) if T * K <= (8 if ctx.thorough else 6)]
    for r in ctx.pmap(work_label, sorted(lshapes, key=lambda s: -s[0] * s[1])):
        ctx.take(r)
    d = ml.get_driver("k2a", ctx.seed)
    inits = ml.all_labellings(d.Tp, d.K)
    if not ctx.thorough:
        inits = inits[::2]
    tasks = [("k2a", ctx.seed, inits[lo:lo + 4], "front") for lo in range(0, len(inits), 4)]
    dj = ml.get_driver("j3", ctx.seed)
    jinits = ml.all_labellings(dj.Tp, dj.K)
    jinits = jinits[::(4 if ctx.thorough else 16)]
    tasks += [("j3", ctx.seed, jinits[lo:lo + 4], "front") for lo in range(0, len(jinits), 4)]
    # exact ties under beta = 0 (mirror-image data), every initial labelling
    dt = ml.get_driver("k2tie", ctx.seed)
    tinits = ml.all_labellings(dt.Tp, dt.K)
    tasks += [("k2tie", ctx.seed, tinits[lo:lo + 16], "front", {"params": ["beta0"]}) for lo in range(0, len(tinits), 16)]
    # runs that repopulate with the library's own random draws (same seed before every form)
    do = ml.get_driver("k2one", ctx.seed)
    oinits = [i for i in ml.all_labellings(do.Tp, do.K) if min(i.count(0), i.count(1)) < 2]
    tasks += [("k2one", ctx.seed, oinits[lo:lo + 2], "front", {"real_random": True, "params": ["beta", "eps", "lambda"]})
              for lo in range(0, len(oinits), 2)]
    for r in ctx.pmap(work_e2e, tasks):
        ctx.take(r)
    ctx.cov["exhaustive"] = True
    ctx.cov["rule"] = (
        "(i) S = Q diag(e) Q^T for every e in {0.25,1,4}^NW, 3 bases, NW<=3 (thorough <=4): lambda in "
        "{0,0.25,0.5,1,2} float vs constant matrix bitwise, {0.11,0.3} within 1e-9 relative, and each of "
        "{0,0.25,0.5,1,2} as float/np.float64/np.float32/np.float16/int/np.int64/np.int32/np.uint8 (where exact) "
        "bitwise, plus non-dyadic values held in narrow dtypes (np.float32(0.11), np.float16(0.3), np.uint8(100), "
        "np.int8(50)) vs the Python number of the same value, and window sizes 1..4 in ascending and descending order "
        "within one process, scalar vs matrix under a residual-balancing rho callback and at rho in {2, 0.5} with one matrix object serving two consecutive solves, the covariance floor 2^-13 as float/np.float64/np.float32/np.float16 through the optimisation phase; (ii) every table over {0,1,3}^(T*K), T*K<=6 (thorough 8): beta in {0,0.5,1,2,5} in every scalar "
        "type and as float64/float32/int64 constant vector: identical labels and cost; (iii) driver k2a, every "
        "2nd (thorough: every) initial labelling, through ticc_labels: lambda=1, beta=2, eps=0 and eps=0.25 each "
        "in every equivalent form: all result fields bitwise equal; the same through ticc_joint_labels on the 3-series driver j3 (every 16th initial labelling; thorough every 4th). plus beta = 0 in every scalar form and as a zero vector on "
        "all three drivers and on k2tie (mirror-image data whose cost table holds exact ties), every initial labelling; plus driver "
        "k2one (clusters empty and are refilled) with the library's own donor draws from the global generator, seeded "
        "identically before every form, every initial labelling with a cluster under 2 points. non-trivial = comparisons "
        "where both forms returned")


def replay(ctx, case):
    from vlib import lib
    lib.load("nojit")
    k = case["kind"]
    if k == "admm":
        ctx.take(work_admm((case["N"], case["W"], case["seed"], 0, 1)))
    elif k == "label":
        ctx.take(work_label((case["T"], case["K"])))
    else:
        ctx.take(work_e2e((case["driver"], case["seed"], [tuple(case["init"])], case["entry"], case.get("opts", {}))))
