"""C07 - jointly labelled series are independent across series boundaries.

(a) E1: the mask helper for every tuple of 1..6 stacked lengths in 1..4
    (5460 tuples): zeros exactly on the boundary pairs (index cum_j - 1 under
    the labelling step's convention), cross-checked behaviourally by feeding
    beta x mask to the real labelling kernel.
(b) E2: joint front end on drivers whose regimes change AT a boundary, every
    initial labelling: returned labelling minimises, and reported cost equals,
    assignment + within-series switching cost (cost table observed at the
    labelling step).  Known finding 'joint-boundary-priced' (front_end.py).
(c) joint labelling of a one-element list == single-series front end, all
    result fields bitwise.
(d) no window mixes two series: decided by C10's multi-series clause.
"""
import dataclasses
import itertools

import numpy as np

from vlib import mainloop as ml
from vlib import drivers  # noqa: F401
from vlib.ctx import Acc, stopped

LEVEL = "model_checking"
MONS = ["C07"]


def work_mask(task):
    from vlib import lib
    lib.load("nojit")
    from fast_ticc import data_preparation as dp
    from fast_ticc import cluster_label_assignment as cla
    (n,) = task
    acc = Acc()
    for lengths in itertools.product(range(1, 5), repeat=n):
        if stopped():
            break
        acc.n += 1
        case = {"kind": "mask", "lengths": list(lengths)}
        arg = list(lengths)
        t = np.asarray(dp.label_switching_cost_template(arg))
        total = sum(lengths)
        if arg != list(lengths):
            acc.fail(case, "the helper modified the list of lengths it was given")
        if t.shape != (total,):
            acc.fail(case, f"mask has shape {t.shape}, expected ({total},)")
            continue
        bounds = [c - 1 for c in list(itertools.accumulate(lengths))[:-1]]
        want = np.ones(total)
        want[bounds] = 0.0
        # entry total-1 prices no pair at all; any value there is harmless
        if not np.array_equal(t[:total - 1], want[:total - 1]):
            acc.fail(case, f"lengths {list(lengths)}: zeros at {np.flatnonzero(t[:total - 1] == 0).tolist()}, "
                           f"boundary pairs are {bounds}")
            continue
        if n > 1:
            acc.nontrivial += 1
        # behavioural: with an all-equal table a label change is free exactly at the boundaries.
        # Force a change at pair p by making label 0 cheap before p and label 1 cheap after it.
        if total <= 8 and n > 1:
            beta = 5.0 * t
            for p in range(total - 1):
                table = np.zeros((total, 2))
                table[:p + 1, 1] = 1.0
                table[p + 1:, 0] = 1.0
                labels, cost = cla.assign_point_cluster_labels(table, beta)
                free = p in bounds
                # optimum: switch at p (cost beta_p) vs. stay (cost >= 1)
                if free and float(cost) != 0.0:
                    acc.fail(case, f"lengths {list(lengths)}: changing label across the boundary pair ({p},{p + 1}) "
                                   f"costs {float(cost)} under beta x mask, expected 0")
                    break
                if not free and float(cost) == 0.0:
                    acc.fail(case, f"lengths {list(lengths)}: changing label at the within-series pair ({p},{p + 1}) "
                                   f"is free under beta x mask")
                    break
    acc.sample({"kind": "mask", "series": n, "length_alphabet": [1, 2, 3, 4]})
    return acc.result()


FIELDS = ("bayesian_information_criterion", "calinski_harabasz_index", "label_assignment_cost",
          "all_log_likelihood", "overall_log_likelihood", "overall_log_likelihood_mean",
          "overall_log_likelihood_median", "cluster_log_likelihood_mean", "cluster_log_likelihood_median",
          "markov_random_fields", "num_clusters", "window_size")


def same_value(a, b):
    if isinstance(a, (list, tuple)):
        return isinstance(b, (list, tuple)) and len(a) == len(b) and all(same_value(x, y) for x, y in zip(a, b))
    a, b = np.asarray(a), np.asarray(b)
    if a.dtype.kind == "f" or b.dtype.kind == "f":
        a, b = a.astype(np.float64), b.astype(np.float64)
    return a.shape == b.shape and a.tobytes() == b.tobytes()


def mask_problem(dp, lengths):
    t = np.asarray(dp.label_switching_cost_template(list(lengths)))
    total = sum(lengths)
    want = np.ones(total)
    want[[c - 1 for c in list(itertools.accumulate(lengths))[:-1]]] = 0.0
    if t.shape != (total,) or not np.array_equal(t[:total - 1], want[:total - 1]):
        return f"mask for lengths {list(lengths)} is {t.tolist()}, expected {want.tolist()} (up to the last entry)"
    return None


def work_single_vs_joint(task):
    """(c): same scripted initial labelling through both front ends"""
    from vlib import lib
    lib.load("nojit")
    (name, seed, inits, limit) = task
    acc = Acc()
    d = ml.get_driver(name, seed)
    dj = ml.Driver(name + "_joint", d.series, W=d.W, K=d.K, lam=d.lam, beta=d.beta, m=d.m, eps=d.eps,
                   biased=d.biased, joint=True)
    for init in inits:
        if stopped():
            break
        a = ml.real_run(d, init, limit, (), entry="front")
        b = ml.real_run(dj, init, limit, (), entry="front")
        acc.n += 1
        case = {"kind": "single_vs_joint", "driver": name, "seed": seed, "init": list(init), "limit": limit}
        if (a.error is None) != (b.error is None):
            acc.fail(case, f"single front end {'raised ' + repr(a.error) if a.error else 'returned'}, joint front end "
                           f"{'raised ' + repr(b.error) if b.error else 'returned'}")
            continue
        if a.error is not None:
            acc.count("both_raised")
            continue
        acc.nontrivial += 1
        pl = b.result.point_labels
        if not (isinstance(pl, list) and len(pl) == 1 and [int(x) for x in pl[0]] == [int(x) for x in a.result.point_labels]):
            acc.fail(case, "joint labelling of a one-element list returns different labels than the single-series front end")
            continue
        for f in FIELDS:
            if not same_value(getattr(a.result, f), getattr(b.result, f)):
                acc.fail(case, f"field {f} differs between single-series and one-element joint run: "
                               f"{getattr(a.result, f)!r} vs {getattr(b.result, f)!r}"[:300])
                break
    # the mask helper must still be right AFTER joint runs in this process (no state carried over)
    from fast_ticc import data_preparation as dp
    import fast_ticc
    from vlib.seams import TRACER
    for beta in (5.0, 0.0):
        TRACER.begin(init_labels=None, pool_factory="virtual")
        a = ml.two_regime_series(6, 1, 3)
        b = ml.two_regime_series(7, 1, 5)
        try:
            fast_ticc.ticc_joint_labels([a, b], window_size=2, num_clusters=2, label_switching_cost=beta,
                                        iteration_limit=1, min_cluster_size=1, biased_covariance=True)
        except Exception:
            pass
        for lengths in ((5, 6), (3, 2, 4), (1, 1), tuple(dj.lengths)):
            acc.n += 1
            msg = mask_problem(dp, lengths)
            if msg:
                acc.fail({"kind": "mask_after_joint", "beta": beta, "lengths": list(lengths)},
                         f"after a joint run with beta={beta}: " + msg)
    acc.sample({"kind": "single_vs_joint", "driver": name, "inits": len(inits), "limit": limit})
    return acc.result()


def run(ctx):
    from vlib import lib
    lib.load("nojit")
    for r in ctx.pmap(work_mask, [(n,) for n in range(6, 0, -1)]):
        ctx.take(r)
    # (c)
    names = ["k2a", "k2vec", "k2w3", "k2m1", "k2eps2"] + (["k2b", "k3a", "k2mat", "k2eps"] if ctx.thorough else [])
    tasks = []
    for name in names:
        d = ml.get_driver(name, ctx.seed)
        inits = ml.all_labellings(d.Tp, d.K)
        if not ctx.thorough:
            inits = inits[::3] if name != "k2a" else inits
        for lo in range(0, len(inits), 32):
            tasks.append((name, ctx.seed, inits[lo:lo + 32], 20))
    if not ctx.thorough:
        pass
    for r in ctx.pmap(work_single_vs_joint, tasks):
        ctx.take(r)
    # (b)
    L = 20
    jmenu = [("j2", [1, L], 0), ("j3", [L], 0), ("j2zero", [L], 0), ("j3mask", [L], 0), ("j4mask", [1, L], 0)]
    if ctx.thorough:
        jmenu = [("j2", [1, 2, L], 1), ("j3", [1, L], 1), ("j2zero", [L], 0), ("j1", [L], 0), ("j3mask", [1, L], 1),
                 ("j4mask", [1, 2, L], 0)]
    ps = ml.e2_plans(ctx, jmenu, MONS, entry="front", conform=True)
    ml.explore(ctx, ps)
    ml.e2_describe(ctx, ps)
    ctx.cov["rule"] = (
        "(a) every tuple of 1..6 stacked lengths in 1..4 (5460 tuples): mask == ones with zeros exactly at "
        "cum_j - 1, plus a behavioural cross-check through the real labelling kernel (a forced label change is "
        "free exactly at boundary pairs) for total length <= 8; (c) single-series vs one-element joint front end, "
        "same scripted initial labelling, all result fields bitwise; (b) " + ctx.cov["rule"] +
        " The drivers j3mask / j4mask pass beta x mask themselves as a per-pair cost (3 and 4 series)."
        " Monitor: from the cost table observed at the labelling step of the last round, the returned labelling "
        "minimises and the reported cost equals assignment + within-series switching cost (reference DP).")
    ctx.cov["mask_tuples"] = sum(4 ** n for n in range(1, 7))


def replay(ctx, case):
    from vlib import lib
    lib.load("nojit")
    k = case.get("kind")
    if k == "mask":
        ctx.take(work_mask((len(case["lengths"]),)))
    elif k == "mask_after_joint":
        ctx.take(work_single_vs_joint(("k2a", 0, [], 20)))
    elif k == "single_vs_joint":
        ctx.take(work_single_vs_joint((case["driver"], case["seed"], [tuple(case["init"])], case["limit"])))
    else:
        ml.replay_case(ctx, case, MONS, conform=False)
