"""C01 - the labelling step returns a global minimum-cost sequence.

E1 small-scope enumeration: every cost table over a small integer alphabet up
to a size bound x every switching cost in a menu (scalars in three Python/NumPy
types, every vector over small alphabets), against brute force over all K^T
sequences.  Integer alphabets make every sum exact, so the oracle is exact
equality and ties (the common case) are accepted in any resolution.
Run with the kernel interpreted (this process) and JIT-compiled (sub-process).
"""
import itertools
import json
import operator
import os
import subprocess
import sys
import tempfile

import numpy as np

from vlib import codec, refs
from vlib.ctx import scratch_dir, Acc, HarnessError, VERIF, stopped

LEVEL = "exploration"


# ------------------------------------------------------------------ alphabet
def shapes(tier, mode):
    if tier == "quick":
        lim = 8
        extra = [(5, 2)]
    else:
        lim = 12 if mode == "jit" else 10
        extra = [(6, 2)] if mode != "jit" else []
    out = [(T, K) for T in range(1, lim + 1) for K in range(1, lim + 1) if T * K <= lim]
    out += [s for s in extra if s not in out]
    out.sort(key=lambda s: (s[0] * s[1], s[1]))
    return out


def beta_menu(T, tier, cells=0):
    """list of (kind, value) ; kind in int,float,np64,vec"""
    menu = []
    if cells > 10:
        # deepest tables (thorough, JIT only): scalars and every vector over {0,2}^T
        for v in (0, 1, 2, 5, 0.5):
            menu.append(("float", float(v)))
        if T <= 6:
            for vec in itertools.product((0.0, 2.0), repeat=T):
                menu.append(("vec", list(vec)))
        return menu
    for v in (0, 1, 2, 5, 0.5):
        menu.append(("float", float(v)))
    for v in (0, 1, 2, 5):
        menu.append(("int", int(v)))
        menu.append(("np64", float(v)))
    if T <= 6:
        for vec in itertools.product((0.0, 2.0), repeat=T):
            menu.append(("vec", list(vec)))
    if T <= (4 if tier == "quick" else 6):
        for vec in itertools.product((0.0, 1.0, 5.0), repeat=T):
            if set(vec) <= {0.0}:      # already in the {0,2} family
                continue
            menu.append(("vec", list(vec)))
    if T > 6:
        # long T only occurs with K<=1 at these bounds; a few structured vectors
        for pat in ((0.0, 2.0), (5.0, 0.0, 1.0), (1.0,)):
            menu.append(("vec", [pat[i % len(pat)] for i in range(T)]))
    return menu


def make_beta(kind, value):
    if kind == "float":
        return float(value)
    if kind == "int":
        return int(value)
    if kind == "np64":
        return np.float64(value)
    if kind == "vec":
        return np.array(value, dtype=np.float64)
    raise HarnessError(kind)


ALPHABETS = {
    "base3": (0.0, 1.0, 3.0),
    "neg": (-2.0, 0.0, 3.0),
    "base4": (-2.0, 0.0, 1.0, 3.0),
    "huge": (0.0, 1.0, 1e14),
    "tiny": (0.0, 2.0 ** -50, 3 * 2.0 ** -50),      # every sum is an exact multiple of 2^-50
}


def plan(tier, mode):
    """list of work units (T, K, alphabet name, lo, hi) over table indices"""
    units = []
    for (T, K) in shapes(tier, mode):
        cells = T * K
        for name in (("base3", "neg", "huge", "tiny") if tier == "quick" else ("base4", "huge", "tiny")):
            vals = ALPHABETS[name]
            if tier == "quick" and name in ("neg", "huge", "tiny") and cells > 6:
                continue
            if tier == "thorough" and name in ("huge", "tiny") and cells > 8:
                continue
            if tier == "thorough" and name == "base4" and cells > 8:
                vals = ALPHABETS["base3"]      # 4^8 = 65536 tables per shape is the affordable end of base4
                name = "base3"
            total = len(vals) ** cells
            step = 2000 if cells <= 8 else 4000
            for lo in range(0, total, step):
                units.append((T, K, name, lo, min(total, lo + step)))
    return units


def tables_block(T, K, name, lo, hi):
    vals = np.array(ALPHABETS[name])
    cells = T * K
    idx = np.arange(lo, hi)
    digits = np.empty((hi - lo, cells), dtype=np.int64)
    for c in range(cells - 1, -1, -1):
        digits[:, c] = idx % len(vals)
        idx = idx // len(vals)
    return vals[digits].reshape(hi - lo, T, K)


# ------------------------------------------------------------------ one case
def judge(kernel, table, beta, K, expect_min=None):
    """returns None or a message"""
    T = table.shape[0]
    try:
        labels, cost = kernel(table, beta)
    except Exception as e:          # the statement promises a result
        return f"raised {type(e).__name__}: {e}"
    try:
        n = len(labels)
    except TypeError:
        return "labels have no length"
    if n != T:
        return f"{n} labels for {T} points"
    seq = []
    for l in labels:
        if isinstance(l, (bool, np.bool_)):
            return "label is a bool"
        try:
            v = operator.index(l)
        except TypeError:
            return f"label {l!r} is not an integer"
        if not 0 <= v < K:
            return f"label {v} outside [0,{K})"
        seq.append(v)
    bvec = refs.beta_vector(beta, T)
    obj = refs.label_objective(table, bvec, seq)
    if not (float(cost) == obj):
        return f"reported cost {float(cost)!r} != cost of returned sequence {obj!r} (seq {seq})"
    if expect_min is None:
        expect_min = float(refs.brute_force_min(table[None], bvec)[0])
    if obj != expect_min:
        return f"returned sequence {seq} costs {obj!r}, minimum is {expect_min!r}"
    return None


_INT_TYPES = (int, np.integer)


def fast_ok(kernel, table, beta, T, K, weights, costs_row, minimum):
    """Fast path of judge(): True iff the case passes; anything unusual falls
    through to judge(), which re-runs the call and explains."""
    try:
        labels, cost = kernel(table, beta)
        if len(labels) != T:
            return False
        idx = 0
        for i in range(T):
            l = labels[i]
            if not isinstance(l, _INT_TYPES) or isinstance(l, (bool, np.bool_)) or not 0 <= l < K:
                return False
            idx += int(l) * int(weights[i])
        obj = costs_row[idx]
        return bool(cost == obj and obj == minimum)
    except Exception:
        return False


def _kernel():
    from fast_ticc import cluster_label_assignment as cla
    return cla.assign_point_cluster_labels


def work(unit):
    (T, K, name, lo, hi, tier, mode) = unit
    kernel = _kernel()
    acc = Acc()
    if stopped():
        return acc.result()
    tabs = tables_block(T, K, name, lo, hi)
    seqs, onehot, diff = refs.all_sequences(T, K)
    assign = tabs.reshape(len(tabs), T * K) @ onehot.T
    weights = K ** np.arange(T - 1, -1, -1)
    greedy_idx = (np.argmin(tabs, axis=2) * weights).sum(axis=1)
    const_idx = [int((np.full(T, k) * weights).sum()) for k in range(K)]
    small = T * K <= 6
    for (kind, value) in beta_menu(T, tier, T * K):
        if kind in ("int", "np64") and not small:
            continue
        if name == "huge" and kind == "vec" and max(value) > 2:
            continue
        if name == "tiny":
            # switching costs on the same scale as the table
            if kind in ("int", "np64"):
                continue
            value = value * 2.0 ** -50 if kind == "float" else [v * 2.0 ** -50 for v in value]
        beta = make_beta(kind, value)
        bvec = refs.beta_vector(beta, T)
        switch = diff @ bvec[:T - 1] if T > 1 else np.zeros(len(seqs))
        allc = assign + switch[None, :]
        mins = allc.min(axis=1)
        if kind in ("float", "vec"):
            ties = (allc == mins[:, None]).sum(axis=1)
            triv = np.zeros(len(tabs), dtype=bool)
            triv |= allc[np.arange(len(tabs)), greedy_idx] == mins
            for ci in const_idx:
                triv |= allc[:, ci] == mins
            acc.nontrivial += int((~triv).sum())
            acc.count("tied_optimum", by=int((ties > 1).sum()))
        for b in range(len(tabs)):
            acc.n += 1
            if fast_ok(kernel, tabs[b], beta, T, K, weights, allc[b], mins[b]):
                continue
            if len(acc.fails) >= acc.max_fails:
                acc.count("failures")
                continue
            msg = judge(kernel, tabs[b], beta, K, float(mins[b]))
            if msg:
                acc.fail(case(mode, tabs[b], kind, value, "C"), msg)
        if small and name == "base3" and kind == "float" and value in (1.0, 0.5):
            # cost tables of other real dtypes (the statement says "every table"): a fractional
            # beta with an integer table exposes accumulators that inherit the table's dtype
            for dt in (np.int64, np.float32, np.int32):
                for b in range(len(tabs)):
                    acc.n += 1
                    td = tabs[b].astype(dt)
                    msg = judge(kernel, td, beta, K, float(mins[b]))
                    if msg:
                        acc.fail(case(mode, tabs[b], kind, value, "C", str(np.dtype(dt))), f"{np.dtype(dt)} table: " + msg)
        if small and kind == "float" and value in (1.0,):
            for b in range(len(tabs)):      # Fortran-ordered tables
                acc.n += 1
                tf = np.asfortranarray(tabs[b])
                msg = judge(kernel, tf, beta, K, float(mins[b]))
                if msg:
                    acc.fail(case(mode, tabs[b], kind, value, "F"), msg)
    acc.count("units")
    if lo == 0:
        acc.sample({"T": T, "K": K, "alphabet": list(ALPHABETS[name]),
                    "table": tabs[min(len(tabs) - 1, 5)].tolist(), "betas": len(beta_menu(T, tier, T * K)),
                    "mode": mode})
    return acc.result()


def work_long(unit):
    """Longer sequences than brute force reaches: every 'one-hot' table (row i costs 0 for
    cluster c_i, w elsewhere) for every c in K^T; oracle = forward DP, exact on integers, and
    itself cross-checked against brute force for K^T <= 4096."""
    (T, K, w, lo, hi, tier, mode) = unit
    kernel = _kernel()
    acc = Acc()
    if stopped():
        return acc.result()
    betas = [("float", 0.0), ("float", 1.0), ("float", 2.0), ("float", 5.0),
             ("vec", [float((3 * i) % 4) for i in range(T)]), ("vec", [5.0 if i % 3 == 0 else 0.0 for i in range(T)])]
    idx = np.arange(lo, hi)
    cs = np.empty((hi - lo, T), dtype=np.int64)
    for c in range(T - 1, -1, -1):
        cs[:, c] = idx % K
        idx = idx // K
    for (kind, value) in betas:
        beta = make_beta(kind, value)
        bvec = refs.beta_vector(beta, T)
        for r in range(len(cs)):
            table = np.full((T, K), float(w))
            table[np.arange(T), cs[r]] = 0.0
            acc.n += 1
            want = refs.dp_min(table, bvec)
            if K ** T <= 4096 and r % 17 == 0:
                bf = float(refs.brute_force_min(table[None], bvec)[0])
                if bf != want:
                    raise HarnessError(f"reference DP {want} != brute force {bf}")
            msg = judge(kernel, table, beta, K, want)
            if len(set(cs[r].tolist())) > 1:
                acc.nontrivial += 1
            if msg:
                acc.fail(case(mode, table, kind, value, "C"), msg)
    if lo == 0:
        acc.sample({"family": "one-hot", "T": T, "K": K, "w": w, "mode": mode})
    return acc.result()


def work_sequence(unit):
    """Call history: the same process labels tables with the SAME K and a decreasing (then increasing)
    number of points; every call must still be optimal (work arrays may not leak between calls)."""
    (K, tier, mode) = unit
    kernel = _kernel()
    acc = Acc()
    Ts = [T for T in (8, 7, 5, 6, 4, 3, 2, 1, 2, 4, 3) if T * K <= 16]
    rng_tables = {}
    for rep in range(3):
        for T in Ts:
            if (T, K) not in rng_tables:
                total = 3 ** (T * K)
                pick = np.unique(np.linspace(0, total - 1, 40).astype(np.int64))
                rng_tables[(T, K)] = np.concatenate([tables_block(T, K, "base3", int(i), int(i) + 1) for i in pick])
            tabs = rng_tables[(T, K)]
            for (kind, value) in (("float", 1.0), ("float", 0.5), ("vec", [float((2 * i) % 3) for i in range(T)])):
                beta = make_beta(kind, value)
                for b in range(len(tabs)):
                    acc.n += 1
                    acc.nontrivial += 1
                    msg = judge(kernel, tabs[b], beta, K, refs.dp_min(tabs[b], refs.beta_vector(beta, T)))
                    if msg:
                        acc.fail(dict(case(mode, tabs[b], kind, value, "C"), after_sequence=Ts), f"after calls with T in {Ts}: " + msg)
                        return acc.result()
    acc.sample({"family": "call sequence", "K": K, "T_order": Ts, "mode": mode})
    return acc.result()


def wide_table(T, K, w, spec):
    cells = spec[1] if spec[0] == "cells" else [(i // spec[1]) % K for i in range(T)]
    table = np.full((T, K), float(w))
    table[np.arange(T), np.asarray(cells) % K] = 0.0
    return table


def wide_cases(tier):
    """(T, K, w, cheap cell per row): many clusters (index widths 8/16 bit and their neighbours) and
    many points (block sizes 256/4096/65536 and their neighbours)"""
    out = []
    for K in (255, 256, 257, 300, 65535, 65536, 65537, 65600):
        for T in ((2, 3) if tier == "quick" else (2, 3, 5)):
            for pat in ("top", "topswitch", "lowtop"):
                cells = {"top": [K - 1] * T, "topswitch": [K - 1 - (i % 2) * 3 for i in range(T)],
                         "lowtop": [(K - 1) if i % 2 else 1 for i in range(T)]}[pat]
                out.append((T, K, 10.0, ("cells", cells)))
    for T in (255, 256, 257, 4095, 4096, 4097, 8193) + (() if tier == "quick" else (65535, 65536, 65537)):
        for K in (2, 3):
            for run in (1, 7, 300):
                out.append((T, K, 3.0, ("run", run)))
    return out


def work_wide(unit):
    """Sizes no brute force reaches: forward-DP oracle (exact on these integer/half tables)."""
    (T, K, w, spec, tier, mode) = unit
    kernel = _kernel()
    acc = Acc()
    if stopped():
        return acc.result()
    table = wide_table(T, K, w, spec)
    betas = [("float", 0.5), ("float", 100.0)] if K > 3 else [("float", 1.0), ("float", 2.5), ("vec", [float(i % 3) for i in range(T)])]
    for (kind, value) in betas:
        beta = make_beta(kind, value)
        acc.n += 1
        acc.nontrivial += 1
        msg = judge(kernel, table, beta, K, refs.dp_min(table, refs.beta_vector(beta, T)))
        if msg:
            acc.fail({"mode": mode, "family": "wide", "T": T, "K": K, "w": w, "spec": list(spec),
                      "beta_kind": kind, "beta": value if kind == "float" else None},
                     f"T={T}, K={K}: " + msg[:300])
    if K == 300 and T == 2:
        acc.sample({"family": "wide", "T": T, "K": K, "mode": mode})
    return acc.result()


def long_plan(tier):
    shapes_ = [(10, 2, 3.0), (7, 3, 3.0), (6, 4, 2.0)] if tier == "quick" else \
        [(14, 2, 3.0), (12, 2, 1.0), (9, 3, 3.0), (7, 4, 2.0), (6, 5, 2.0)]
    units = []
    for (T, K, w) in shapes_:
        total = K ** T
        for lo in range(0, total, 1500):
            units.append((T, K, w, lo, min(total, lo + 1500)))
    return units


def case(mode, table, kind, value, order, dtype="float64"):
    return {"mode": mode, "table": codec.enc(np.array(table)), "beta_kind": kind,
            "beta": value, "order": order, "dtype": dtype}


# ------------------------------------------------------------------ drivers
def enumerate_mode(ctx, mode):
    from vlib import lib
    lib.load(mode)
    kernel = _kernel()
    # compile each signature before forking
    t = np.zeros((2, 2))
    try:
        for b in (1.0, 1, np.float64(1.0), np.zeros(2)):
            kernel(t, b)
            kernel(np.asfortranarray(t), b)
        for dt in (np.int64, np.float32, np.int32):
            kernel(t.astype(dt), 0.5)
    except Exception:
        pass        # warm-up only: a signature that cannot be compiled is reported by judge() below
    units = [u + (ctx.tier, mode) for u in plan(ctx.tier, mode)]
    res = ctx.pmap(work, units)
    res += ctx.pmap(work_long, [u + (ctx.tier, mode) for u in long_plan(ctx.tier)])
    res += ctx.pmap(work_sequence, [(K, ctx.tier, mode) for K in (2, 3, 4)])
    res += ctx.pmap(work_wide, [u + (ctx.tier, mode) for u in wide_cases(ctx.tier)])
    return res


def run(ctx):
    res = enumerate_mode(ctx, "nojit")
    for r in res:
        ctx.take(r)
    n_nojit = ctx.cov["evaluations"]
    # JIT-compiled kernel: same enumeration in a separate process
    out = scratch_dir("c01_")
    path = os.path.join(out, "jit.json")
    try:
        p = subprocess.run([sys.executable, "-m", "vlib.run", "C01", "--tier", ctx.tier,
                            "--mode", "jit", "--arg", path], cwd=VERIF,
                           stdout=subprocess.DEVNULL)
        if p.returncode != 0 or not os.path.exists(path):
            raise HarnessError(f"jit sub-process failed rc={p.returncode}")
        with open(path) as f:
            for r in json.load(f):
                r["samples"] = r.get("samples", [])[:1]
                nt = r.pop("nontrivial", 0)      # same cases as above: not distinct
                r["nontrivial"] = 0
                ctx.take(r)
    finally:
        try:
            if os.path.exists(path):
                os.remove(path)
            os.rmdir(out)
        except OSError:
            pass
    ctx.cov["evaluations_interpreted"] = n_nojit
    ctx.cov["evaluations_jit"] = ctx.cov["evaluations"] - n_nojit
    ctx.cov["exhaustive"] = True
    ctx.cov["shapes"] = {m: [list(s) for s in shapes(ctx.tier, m)] for m in ("nojit", "jit")}
    ctx.cov["rule"] = (
        "every cost table over the integer alphabets {0,1,3}, {-2,0,3}/{-2,0,1,3}, {0,1,1e14}, {0,1,3}x2^-50 (with switching costs x2^-50) for every "
        "listed (T,K), x every beta in the menu (scalars 0,0.5,1,2,5 as float, 0,1,2,5 also as int/np.float64; int64/float32/int32 tables for T*K<=6 with beta 0.5 and 1, every vector "
        "in {0,2}^T and {0,1,5}^T); oracle = brute force over all K^T sequences, exact equality; "
        "distinct_nontrivial counts distinct (table,beta) pairs (float/vector betas, interpreted pass "
        "only) whose optimum is strictly better than every constant sequence and than the per-point "
        "greedy sequence, i.e. where the dynamic programme has to trade assignment against switching; plus the "
        "'one-hot' family for longer sequences (every c in K^T for (T,K) in {(10,2),(7,3),(6,4)}, thorough up to "
        "T=14): oracle forward DP, cross-checked against brute force; plus call sequences: one process labels "
        "tables with the same K and T = 8,7,5,6,4,3,2,1,2,4,3 (three passes) - results may not depend on earlier calls; plus the 'wide' family: K in "
        "{255,256,257,300,65535,65536,65537,65600} x T in {2,3} x three cheap-cell patterns in the highest indices x beta {0.5,100}, "
        "and T in {255,256,257,4095,4096,4097,8193} (thorough: 65535..65537) x K in {2,3} x run lengths {1,7,300} x three betas; "
        "oracle forward DP")
    ctx.assumptions += [
        "binary64 sums of the alphabets are exact: integers and halves with every partial sum (including the "
        "+beta/-beta the recurrence performs) below 2^52 - the 'huge' value is 1e14 so that 8 cells + 0.5 stay exact",
        "numba compiles the kernel per argument signature; signatures exercised: float64 C/F table x "
        "float/int/float64-array beta",
    ]


def mode_main(mode, arg, tier, seed):
    from vlib.ctx import Ctx
    ctx = Ctx("C01", tier, seed)
    res = enumerate_mode(ctx, mode)
    with open(arg, "w") as f:
        json.dump(res, f, default=lambda o: o.tolist() if hasattr(o, "tolist") else repr(o))
    return 0


def replay(ctx, c):
    from vlib import lib
    lib.load(c["mode"])
    if c.get("family") == "wide":
        T, K = c["T"], c["K"]
        table = wide_table(T, K, c["w"], tuple(c["spec"]))
        beta = make_beta("float", c["beta"]) if c["beta_kind"] == "float" else make_beta("vec", [float(i % 3) for i in range(T)])
        msg = judge(_kernel(), table, beta, K, refs.dp_min(table, refs.beta_vector(beta, T)))
        ctx.cov["evaluations"] = 1
        if msg:
            ctx.violation(c, msg[:300])
        return
    table = codec.dec(c["table"])
    if c["order"] == "F":
        table = np.asfortranarray(table)
    if c.get("dtype", "float64") != "float64":
        table = table.astype(np.dtype(c["dtype"]))
    beta = make_beta(c["beta_kind"], c["beta"])
    K = table.shape[1]
    msg = judge(_kernel(), table, beta, K)
    ctx.cov["evaluations"] = 1
    if msg:
        ctx.violation(c, msg)
