"""C10 - window stacking is exact and never crosses a series boundary.

E1, complete over the stated ranges: every (T,W,N) with W in 1..12, N in 1..6,
T in W..W+40; cells carry pairwise distinct binary64 bit patterns including NaN
payloads, +-inf, -0.0 and denormals, compared as uint64.
"""
import itertools

import numpy as np

from vlib.ctx import Acc, stopped

LEVEL = "exploration"

ONCE = {3: 0x7FF0000000000000, 10: 0xFFF0000000000000, 17: 0x8000000000000000,
        24: 0x0000000000000001, 31: 0x800FFFFFFFFFFFFF, 38: 0x0000000000000000}


def distinct_cells(T, N, salt=0, nanrows=()):
    """T x N float64 array of pairwise distinct bit patterns: a counter in the
    mantissa of a normal number; every 7th cell a NaN with a distinct payload
    (quiet/signalling, both signs); +inf, -inf, -0.0, +0.0 and two denormals
    once each."""
    n = T * N
    out = np.empty(n, dtype=np.uint64)
    for i in range(n):
        c = i + salt * 1000003
        if i in ONCE:
            out[i] = ONCE[i]
        elif i % 7 == 5 or (i // N) in nanrows:
            quiet = 0x0008000000000000 if (i // 7) % 2 else 0
            sign = 0x8000000000000000 if (i // 14) % 2 else 0
            out[i] = sign | 0x7FF0000000000000 | quiet | ((c + 1) << 8)
        else:
            out[i] = 0x3FF0000000000000 + c * 0x10001
    assert len(set(out.tolist())) == n
    return out.view(np.float64).reshape(T, N)


def u64(a):
    return np.ascontiguousarray(a).view(np.uint64)


def check_single(dp, T, W, N, acc, salt=0, view=None):
    data = distinct_cells(T, N, salt)
    if view == "wide":
        # a column slice of a wider array: rows are contiguous, consecutive rows are not adjacent in memory
        wide = distinct_cells(T, N + 3, salt + 11)
        wide[:, :N] = data
        data = wide[:, :N]
    elif view == "every_other":
        long_ = distinct_cells(2 * T, N, salt + 13)
        long_[::2] = data
        data = long_[::2]
    elif view == "fortran":
        data = np.asfortranarray(data)
    keep = u64(data).copy()
    out = dp.stack_training_data(data, W)
    acc.n += 1
    case = {"kind": "single", "T": T, "W": W, "N": N, "salt": salt, "view": view}
    if not np.array_equal(u64(data), keep):
        acc.fail(case, "input series modified by stacking")
    if not isinstance(out, np.ndarray) or out.shape != (T - W + 1, N * W):
        acc.fail(case, f"shape {getattr(out, 'shape', None)} != {(T - W + 1, N * W)}")
        return
    if out.dtype != np.float64:
        acc.fail(case, f"dtype {out.dtype}")
        return
    ob = u64(out)
    db = u64(data)
    for j in range(W):
        if not np.array_equal(ob[:, j * N:(j + 1) * N], db[j:j + T - W + 1, :]):
            i = int(np.argwhere(ob[:, j * N:(j + 1) * N] != db[j:j + T - W + 1, :])[0][0])
            acc.fail(case, f"row {i}, block {j} is not input row {i + j} bit for bit")
            return
    if W > 1 and T > W:
        acc.nontrivial += 1


def work_single(task):
    from vlib import lib
    lib.load("nojit")
    from fast_ticc import data_preparation as dp
    acc = Acc()
    (W, N) = task
    for T in range(W, W + 41):
        if stopped():
            break
        check_single(dp, T, W, N, acc)
        if T in (W, W + 1, W + 6, W + 17):
            for view in ("wide", "every_other", "fortran"):
                check_single(dp, T, W, N, acc, view=view)
    # value-equality for int / float32 inputs
    for T in (W, W + 3):
        for dt in (np.int64, np.float32, np.int8):
            data = (np.arange(T * N).reshape(T, N) % 100).astype(dt)
            out = dp.stack_training_data(data, W)
            acc.n += 1
            ok = out.shape == (T - W + 1, N * W) and all(
                np.array_equal(out[:, j * N:(j + 1) * N], data[j:j + T - W + 1, :].astype(np.float64)) for j in range(W))
            if not ok:
                acc.fail({"kind": "dtype", "T": T, "W": W, "N": N, "dtype": str(np.dtype(dt))},
                         f"{np.dtype(dt)} input not stacked by value")
    acc.sample({"kind": "single", "W": W, "N": N, "T_range": [W, W + 40]})
    return acc.result()


def work_history(task):
    """one process stacks many (T,W,N) in a fixed order: shapes of the OUTPUT collide across different
    (W,N) (5x2 from W=2,N=1 and from W=1,N=2); every call must still be exact"""
    from vlib import lib
    lib.load("nojit")
    from fast_ticc import data_preparation as dp
    (order,) = task
    acc = Acc()
    triples = [(T, W, N) for W in range(1, 7) for N in range(1, 5) for T in range(W, W + 9)]
    if order == "desc":
        triples = triples[::-1]
    elif order == "by_shape":
        triples.sort(key=lambda t: ((t[0] - t[1] + 1), t[1] * t[2], t[1]))
    for (T, W, N) in triples:
        if stopped() or len(acc.fails) >= 3:
            break
        before = len(acc.fails)
        check_single(dp, T, W, N, acc, salt=3)
        if len(acc.fails) > before:
            (c, m, sg) = acc.fails[-1]
            acc.fails[-1] = (dict(c, kind="history", order=order), f"in a sequence of calls ({order}): " + m, sg)
    # the SAME array object stacked with different windows, back and forth
    for (T, N) in ((12, 2), (9, 1), (15, 3)):
        data = distinct_cells(T, N, salt=5)
        db = u64(data)
        for W in (3, 2, 1, 2, 5, 3):
            acc.n += 1
            out = dp.stack_training_data(data, W)
            ok = isinstance(out, np.ndarray) and out.shape == (T - W + 1, N * W) and all(
                np.array_equal(u64(out)[:, j * N:(j + 1) * N], db[j:j + T - W + 1, :]) for j in range(W))
            if not ok:
                acc.fail({"kind": "history", "order": order, "same_object": True, "T": T, "N": N, "W": W},
                         f"the same {T}x{N} array stacked again with window {W} (after other windows): wrong result "
                         f"(shape {getattr(out, 'shape', None)})")
                break
    # the SAME array object stacked again with the SAME window after its contents were changed in place
    # (single and joint path; nothing else stacked in between)
    for (T, N, W) in ((9, 2, 3), (6, 1, 1), (12, 3, 2)):
        data = distinct_cells(T, N, salt=7)
        for step in range(3):
            if step:
                data[...] = distinct_cells(T, N, salt=7 + step)
            db = u64(data)
            for path in ("single", "joint"):
                acc.n += 1
                out = dp.stack_training_data(data, W) if path == "single" else \
                    dp.stack_training_data_multiple_series([data, data], W)
                rows = T - W + 1
                ok = isinstance(out, np.ndarray) and out.shape == ((rows if path == "single" else 2 * rows), N * W) and all(
                    np.array_equal(u64(out)[:rows, j * N:(j + 1) * N], db[j:j + rows, :]) for j in range(W))
                if ok and path == "joint":
                    ok = np.array_equal(u64(out)[rows:], u64(out)[:rows])
                if not ok:
                    acc.fail({"kind": "history", "order": order, "same_object": True, "in_place": step, "T": T, "N": N, "W": W},
                             f"the same {T}x{N} array stacked again ({path}, window {W}) after its contents were changed in "
                             f"place {step} time(s): the result does not show the current contents")
                    break
    acc.sample({"kind": "history", "order": order, "calls": len(triples)})
    return acc.result()


def work_multi(task):
    from vlib import lib
    lib.load("nojit")
    from fast_ticc import data_preparation as dp
    acc = Acc()
    (W, N, nseries) = task
    front = (W - 1) // 2
    back = (W - 1) - front
    for lengths in itertools.product((W, W + 1, W + 3), repeat=nseries):
        if stopped():
            break
        for variant in ("plain", "nanrows", "zeros"):
            # 'nanrows': a row that is NaN on every sensor (distinct payloads) in the first and the last series
            # 'zeros': one whole series is +0.0 / -0.0 (bit patterns still tell the cells apart by sign only)
            series = []
            for i, T in enumerate(lengths):
                rows = ()
                if variant == "nanrows":
                    rows = (min(1, T - 1),) if i == 0 else ((T - 1,) if i == nseries - 1 else ())
                cells = distinct_cells(T, N, salt=i + 1, nanrows=rows)
                if variant == "zeros" and i == min(1, nseries - 1):
                    cells = np.where((np.arange(T * N).reshape(T, N) % 2) == 0, 0.0, -0.0)
                series.append(cells)
            keep = [u64(s).copy() for s in series]
            case = {"kind": "multi", "W": W, "N": N, "lengths": list(lengths), "variant": variant}
            acc.n += 1
            try:
                out = dp.stack_training_data_multiple_series(list(series), W)
            except Exception as e:
                acc.fail(case, f"joint stacking raised {type(e).__name__}: {e}")
                continue
            if any(not np.array_equal(u64(s), k) for s, k in zip(series, keep)):
                acc.fail(case, "an input series was modified")
            # reference: row-wise concatenation of the individual reference stackings
            ref = []
            for s in series:
                T = s.shape[0]
                r = np.zeros((T - W + 1, N * W))
                for i in range(T - W + 1):
                    for j in range(W):
                        r[i, j * N:(j + 1) * N] = s[i + j]
                ref.append(r)
            ref = np.vstack(ref)
            if not isinstance(out, np.ndarray) or out.shape != ref.shape or not np.array_equal(u64(out), u64(ref)):
                acc.fail(case, f"joint stacking ({variant}) is not the concatenation of the individual stackings: "
                               f"shape {getattr(out, 'shape', None)} vs {ref.shape} "
                               "(a window mixes two series, or rows are dropped or misplaced)")
                continue
            if nseries > 1:
                acc.nontrivial += 1
        # series of mixed real dtypes: each is stacked by value, whatever its neighbours are
        if nseries <= 3:
            for dts in itertools.product((np.float64, np.float32, np.int64), repeat=nseries):
                if all(d is np.float64 for d in dts):
                    continue
                series = []
                for i, (T, dt) in enumerate(zip(lengths, dts)):
                    base = (np.arange(T * N).reshape(T, N) * 7 + i * 3) % 50
                    # float64 cells that float32 cannot hold, float32 cells with a fraction, integers
                    series.append((base + 0.1).astype(np.float64) if dt is np.float64 else
                                  (base + 0.25).astype(np.float32) if dt is np.float32 else base.astype(np.int64))
                case = {"kind": "multi", "W": W, "N": N, "lengths": list(lengths), "variant": "dtypes",
                        "dtypes": [np.dtype(d).name for d in dts]}
                acc.n += 1
                try:
                    out = dp.stack_training_data_multiple_series(list(series), W)
                except Exception as e:
                    acc.fail(case, f"joint stacking of {case['dtypes']} series raised {type(e).__name__}: {e}")
                    continue
                ref = np.vstack([np.array([[float(s[i + j, c]) for j in range(W) for c in range(N)]
                                           for i in range(s.shape[0] - W + 1)]).reshape(s.shape[0] - W + 1, N * W)
                                 for s in series])
                if not isinstance(out, np.ndarray) or out.shape != ref.shape or out.dtype != np.float64 \
                        or not np.array_equal(out, ref):
                    acc.fail(case, f"joint stacking of {case['dtypes']} series is not the concatenation of the individual "
                                   f"stackings by value (dtype {getattr(out, 'dtype', None)})")
                elif nseries > 1:
                    acc.nontrivial += 1
        # split + pad restore one list per series of the original length
        stacked = [T - W + 1 for T in lengths]
        joint = list(range(100, 100 + sum(stacked)))
        keepj = list(joint)
        parts = dp.split_joint_labels(joint, stacked)
        acc.n += 1
        ok = isinstance(parts, list) and len(parts) == nseries
        pos = 0
        if ok:
            for p, n, T in zip(parts, stacked, lengths):
                if list(p) != keepj[pos:pos + n]:
                    ok = False
                    break
                padded = dp.pad_missing_labels(list(p), W)
                if list(padded) != [-1] * front + keepj[pos:pos + n] + [-1] * back or len(padded) != T:
                    ok = False
                    break
                pos += n
        if not ok or joint != keepj:
            acc.fail({"kind": "split", "W": W, "N": N, "lengths": list(lengths)},
                     "split + pad does not restore one label list per series of the original length")
    acc.sample({"kind": "multi", "W": W, "N": N, "series": nseries, "length_alphabet": [W, W + 1, W + 3]})
    return acc.result()


def run(ctx):
    from vlib import lib
    lib.load("nojit")
    singles = [(W, N) for W in range(1, 13) for N in range(1, 7)]
    for r in ctx.pmap(work_single, singles):
        ctx.take(r)
    for r in ctx.pmap(work_history, [("asc",), ("desc",), ("by_shape",)]):
        ctx.take(r)
    ws = (1, 2, 3, 5) if not ctx.thorough else (1, 2, 3, 4, 5, 8)
    multis = [(W, N, n) for W in ws for N in (1, 2) for n in range(1, 7)]
    for r in ctx.pmap(work_multi, multis):
        ctx.take(r)
    ctx.cov["exhaustive"] = True
    ctx.cov["rule"] = (
        "every (T,W,N) with W in 1..12, N in 1..6, T in W..W+40 (2952 triples), cells = pairwise distinct "
        "bit patterns incl. NaN payloads, inf, -0.0, denormals, compared as uint64 (for four T per (W,N) also as a column slice of a wider array, an every-other-row view and a Fortran-ordered array); every tuple of 1..6 series "
        "lengths from {W,W+1,W+3} for W in " + str(list(ws)) + " x N in {1,2}: joint stacking == vstack of "
        "individual reference stackings (also with rows that are NaN on every sensor and with a series that is all +-0.0), for <= 3 series every assignment of {float64, float32, int64} to the series (by value), the same array object re-stacked with the same window after in-place changes of its contents, call sequences in one process in three orders (output shapes collide across (W,N)), split+pad round trip; int64/float32/int8 inputs by value; "
        "non-trivial = W>1 and T>W (single) or >= 2 series (multi)")


def replay(ctx, case):
    from vlib import lib
    lib.load("nojit")
    from fast_ticc import data_preparation as dp
    acc = Acc()
    if case["kind"] == "single":
        check_single(dp, case["T"], case["W"], case["N"], acc, case.get("salt", 0), case.get("view"))
        ctx.take(acc.result())
    elif case["kind"] == "history":
        ctx.take(work_history((case["order"],)))
    elif case["kind"] == "dtype":
        ctx.take(work_single((case["W"], case["N"])))
    else:
        ctx.take(work_multi((case["W"], case["N"], len(case["lengths"]))))
