"""C19 - caller-owned data is never modified; read-only arrays work.

E1: entry points {ticc_labels, ticc_joint_labels, admm_optimize_theta,
assign_point_cluster_labels, predict_cluster_labels} x every array-valued
argument in every form x {writable, read-only} x {C, Fortran order} x outcome
{success, wrong-kind TypeError, no-donor RuntimeError, injected optimiser
fault at round 0 / round 1} x eps in {0, 1e-2} x {interpreted, JIT}.
Oracle: byte-wise snapshot (bytes, shape, strides, flags; lists: identity and
content of every element) equal before and after; the read-only variant
returns the same result as the writable one.
"""
import itertools
import json
import os
import subprocess
import sys
import tempfile

import numpy as np

from vlib import mainloop as ml
from vlib import seams
from vlib import drivers  # noqa: F401
from vlib.ctx import scratch_dir, Acc, HarnessError, VERIF, stopped
from vlib.seams import TRACER
from checks.c07 import FIELDS, same_value

LEVEL = "exploration"


class InjectedFault(ValueError):
    pass


def snap(o):
    if isinstance(o, np.ndarray):
        return ("nd", o.shape, o.strides, str(o.dtype), bool(o.flags.writeable), bool(o.flags.c_contiguous),
                bool(o.flags.f_contiguous), o.tobytes(order="A"), np.ascontiguousarray(o).tobytes(),
                # a view: the buffer it looks into is the caller's as well
                o.base.tobytes(order="A") if isinstance(o.base, np.ndarray) else None)
    if isinstance(o, (list, tuple)):
        return ("seq", type(o).__name__, len(o), tuple(id(x) for x in o), tuple(snap(x) for x in o))
    return ("val", repr(o))


def form(a, order, readonly):
    a = np.array(a, dtype=np.float64, order="F" if order == "F" else "C", copy=True)
    if readonly:
        a.setflags(write=False)
    return a


def diff_names(before, args):
    return [k for k in before if before[k] != snap(args[k])]


def call_front(kind, args, init, limit, fault=None):
    """run a front end under scripted seams; returns ('ok', result) or ('raise', exc)"""
    import fast_ticc
    TRACER.install()
    TRACER.deep = False
    TRACER.begin(init_labels=init, donor_script=(), pool_factory="virtual", task_fault=fault)
    try:
        fn = fast_ticc.ticc_joint_labels if kind == "joint" else fast_ticc.ticc_labels
        kw = {k: v for k, v in args.items() if k != "data"}
        return ("ok", fn(args["data"], iteration_limit=limit, num_processors=1, **kw))
    except HarnessError:
        raise
    except Exception as e:
        return ("raise", e)


def results_equal(a, b):
    if a[0] != b[0]:
        return False
    if a[0] == "raise":
        return type(a[1]) is type(b[1])
    ra, rb = a[1], b[1]
    return same_value(ra.point_labels, rb.point_labels) and all(same_value(getattr(ra, f), getattr(rb, f)) for f in FIELDS)


def front_cases():
    """(kind, outcome, N, W, lam_kind, beta_kind, eps)"""
    out = []
    for kind in ("single", "joint"):
        for outcome in ("success", "no_donor", "fault0", "fault1", "wrong_kind", "int_data", "f32_data", "neg_beta", "w1",
                        "vec_data", "be", "view", "zd"):
            for (lam_kind, beta_kind) in (("matrix", "vector"), ("scalar", "vector"), ("matrix", "scalar")):
                for eps in (0, 1e-2):
                    if outcome in ("wrong_kind", "no_donor", "int_data", "f32_data", "neg_beta", "w1", "vec_data", "be", "view",
                                   "zd") and (eps or lam_kind == "scalar"):
                        continue
                    if outcome == "neg_beta" and beta_kind != "vector":
                        continue
                    out.append((kind, outcome, lam_kind, beta_kind, eps))
    return out


def build_front(kind, outcome, lam_kind, beta_kind, eps, order, readonly):
    N, W, K = 2, 2, 2
    s1 = ml.two_regime_series(9, N, 61)
    s2 = ml.two_regime_series(8, N, 67)
    NW = N * W
    lam = np.array([[0.1 + 0.02 * ((i + j) % 3) for j in range(NW)] for i in range(NW)])
    lam = (lam + lam.T) / 2
    if kind == "joint":
        Tp = (9 - W + 1) + (8 - W + 1)
        data = [form(s1, order, readonly), form(s2, order, readonly)]
    else:
        Tp = 9 - W + 1
        data = form(s1, order, readonly)
    beta_v = np.array([1.0 + 0.5 * (i % 3) for i in range(Tp)])
    args = {"data": data, "window_size": W, "num_clusters": K,
            "sparsity_weight": form(lam, order, readonly) if lam_kind == "matrix" else 0.11,
            "label_switching_cost": form(beta_v, "C", readonly) if beta_kind == "vector" else 1.0,
            "min_meaningful_covariance": eps, "min_cluster_size": 2, "biased_covariance": False}
    init = tuple(0 if i < Tp // 2 else 1 for i in range(Tp))
    limit = 4
    fault = None
    if outcome == "no_donor":
        # a huge switching cost collapses everything into one cluster in round 0;
        # nobody can spare 2m = 2*Tp points in round 1
        args["label_switching_cost"] = form(np.full(Tp, 1e9), "C", readonly) if beta_kind == "vector" else 1e9
        args["min_cluster_size"] = Tp
    elif outcome == "fault0":
        fault = (0, 1, InjectedFault("injected at round 0, cluster 1"))
    elif outcome == "fault1":
        fault = (1, 0, InjectedFault("injected at round 1, cluster 0"))
    elif outcome in ("int_data", "f32_data"):
        # series of another real dtype: the caller's list must keep holding the caller's own arrays
        dt = np.int64 if outcome == "int_data" else np.float32
        def conv(a):
            b = np.array(np.round(np.asarray(a) * 8), dtype=dt, order="F" if order == "F" else "C")
            if readonly:
                b.setflags(write=False)
            return b
        args["data"] = [conv(x) for x in args["data"]] if kind == "joint" else conv(args["data"])
    elif outcome == "w1":
        # window_size == 1: the stacked data has the shape of the input, a natural place to alias it
        args["window_size"] = 1
        s1o = s1 + 20.0
        s2o = s2 + 20.0
        if kind == "joint":
            args["data"] = [form(s1o, order, readonly), form(s2o, order, readonly)]
            Tp1 = len(s1o) + len(s2o)
        else:
            args["data"] = form(s1o, order, readonly)
            Tp1 = len(s1o)
        lam1 = lam[:N, :N]
        args["sparsity_weight"] = form(lam1, order, readonly) if lam_kind == "matrix" else 0.11
        if beta_kind == "vector":
            args["label_switching_cost"] = form(np.array([1.0 + 0.5 * (i % 3) for i in range(Tp1)]), "C", readonly)
        init = tuple(0 if i < Tp1 // 2 else 1 for i in range(Tp1))
    elif outcome == "neg_beta":
        v = np.array(args["label_switching_cost"], dtype=np.float64)
        v[1] = -0.5
        if readonly:
            v.setflags(write=False)
        args["label_switching_cost"] = v
    elif outcome == "vec_data":
        # one sensor handed over as a vector: whatever the call does with it, the vector stays the caller's
        def vec(a):
            b = np.array(np.asarray(a)[:, 0], dtype=np.float64)
            if readonly:
                b.setflags(write=False)
            return b
        args["data"] = [vec(x) for x in args["data"]] if kind == "joint" else vec(args["data"])
    elif outcome == "be":
        # every array argument in the other byte order (what a file written on another machine gives)
        def swapped(a):
            b = np.array(a, dtype=np.dtype(np.float64).newbyteorder(), order="F" if (order == "F" and np.ndim(a) == 2) else "C")
            if readonly:
                b.setflags(write=False)
            return b
        args["data"] = [swapped(x) for x in args["data"]] if kind == "joint" else swapped(args["data"])
        args["sparsity_weight"] = swapped(args["sparsity_weight"])
        if beta_kind == "vector":
            args["label_switching_cost"] = swapped(args["label_switching_cost"])
    elif outcome == "view":
        # non-contiguous views into larger buffers
        def view2(a):
            a = np.asarray(a)
            big = np.full((2 * a.shape[0], a.shape[1] + 3), 7.25, order="F" if order == "F" else "C")
            big[::2, 1:1 + a.shape[1]] = a
            if readonly:
                big.setflags(write=False)
            return big[::2, 1:1 + a.shape[1]]
        def view1(a):
            a = np.asarray(a)
            big = np.full(3 * len(a), 7.25)
            big[::3] = a
            if readonly:
                big.setflags(write=False)
            return big[::3]
        args["data"] = [view2(x) for x in args["data"]] if kind == "joint" else view2(args["data"])
        args["sparsity_weight"] = view2(args["sparsity_weight"])
        if beta_kind == "vector":
            args["label_switching_cost"] = view1(args["label_switching_cost"])
    elif outcome == "zd":
        # scalars handed over as 0-d arrays
        def zd(x):
            b = np.array(float(x))
            if readonly:
                b.setflags(write=False)
            return b
        args["sparsity_weight"] = zd(0.11)
        args["label_switching_cost"] = zd(1.0)
        args["min_meaningful_covariance"] = zd(0.0)
    elif outcome == "wrong_kind":
        if kind == "single":
            args["data"] = [form(s1, order, readonly), form(s2, order, readonly)]     # a list to ticc_labels
            kind = "single"
        else:
            args["data"] = form(s1, order, readonly)                                  # an array to ticc_joint_labels
    return kind, args, init, limit, fault


EXPECT = {"success": "ok", "no_donor": RuntimeError, "fault0": InjectedFault, "fault1": InjectedFault,
          "wrong_kind": TypeError, "int_data": "ok", "f32_data": "ok", "neg_beta": "ok", "w1": "ok",
          # outcome not prescribed: the arguments stay untouched whatever happens, and read-only / F-ordered forms
          # end the same way as writable C-ordered ones
          "vec_data": "any", "be": "any", "view": "ok", "zd": "any"}


def work_front(task):
    (mode, cases) = task
    from vlib import lib
    lib.load(mode)
    acc = Acc()
    for (kind, outcome, lam_kind, beta_kind, eps) in cases:
        if stopped():
            break
        base = None
        for (order, readonly) in itertools.product(("C", "F"), (False, True)):
            k2, args, init, limit, fault = build_front(kind, outcome, lam_kind, beta_kind, eps, order, readonly)
            before = {k: snap(v) for k, v in args.items()}
            res = call_front(k2, args, init, limit, fault)
            acc.n += 1
            case = {"kind": "front", "entry": kind, "outcome": outcome, "lambda": lam_kind, "beta": beta_kind,
                    "eps": eps, "order": order, "readonly": readonly, "mode": mode}
            changed = diff_names(before, args)
            if changed:
                acc.fail(case, f"{kind} front end ({outcome}) modified its argument(s) {changed}")
            want = EXPECT[outcome]
            if want == "any":
                pass
            elif want == "ok":
                if res[0] != "ok":
                    acc.fail(case, f"{'read-only ' if readonly else ''}{order}-ordered inputs: raised "
                                   f"{type(res[1]).__name__}: {res[1]}")
                    continue
            else:
                if res[0] != "raise" or not isinstance(res[1], want):
                    acc.fail(case, f"expected {want.__name__}, got "
                                   f"{('result' if res[0] == 'ok' else type(res[1]).__name__ + ': ' + str(res[1]))}")
                    continue
            if readonly or order == "F" or outcome != "success":
                acc.nontrivial += 1
            if base is None:
                base = res
            elif not results_equal(base, res):
                acc.fail(case, f"{'read-only ' if readonly else ''}{order}-ordered inputs give a different result "
                               f"than writable C-ordered ones")
    acc.sample({"kind": "front", "mode": mode, "cases": [list(map(str, c)) for c in cases[:3]]})
    return acc.result()


def work_kernels(task):
    (mode,) = task
    from vlib import lib
    lib.load(mode)
    from fast_ticc import admm, cluster_label_assignment as cla
    from fast_ticc.containers import arguments, model_state
    acc = Acc()
    rng = np.random.default_rng(5)
    # ---- optimiser entry point
    for (N, W) in ((2, 1), (1, 2), (2, 2), (3, 1)):
        n = N * W
        A = rng.normal(size=(n, n))
        S0 = A @ A.T / n + 0.5 * np.eye(n)
        L0 = np.abs(rng.normal(size=(n, n))) * 0.2
        L0 = (L0 + L0.T) / 2
        base = None
        # a covariance whose two triangles differ by round-off (what a caller's own estimator may hand in)
        S_asym = S0.copy()
        S_asym[0, n - 1] = np.nextafter(S_asym[0, n - 1], np.inf)
        for (order, ro, lamk, rho, cb, sym) in itertools.product(("C", "F"), (False, True), ("matrix", "scalar"),
                                                               (1.0, 10.0), (False, True), (True, False)):
            from checks.c02 import boyd
            if not sym and (n == 1 or rho != 1.0 or cb):
                continue
            args = {"S": form(S0 if sym else S_asym, order, ro), "lam": form(L0, order, ro) if lamk == "matrix" else 0.11}
            before = {k: snap(v) for k, v in args.items()}
            acc.n += 1
            case = {"kind": "admm", "N": N, "W": W, "order": order, "readonly": ro, "lambda": lamk, "rho": rho,
                    "callback": cb, "mode": mode, "exactly_symmetric": sym}
            try:
                th = admm.admm_optimize_theta(args["S"], args["lam"], W, N, rho=rho,
                                              rho_update=boyd if cb else None).theta
            except Exception as e:
                acc.fail(case, f"optimiser raised {type(e).__name__}: {e} on "
                               f"{'read-only ' if ro else ''}{order}-ordered inputs")
                continue
            ch = diff_names(before, args)
            if ch:
                acc.fail(case, f"optimiser entry point modified {ch}")
            acc.nontrivial += 1
            key = (lamk, rho, cb, sym)
            if base is None:
                base = {}
            if key not in base:
                base[key] = th
            elif base[key].tobytes() != th.tobytes() and not np.allclose(base[key], th, rtol=1e-9, atol=1e-12):
                acc.fail(case, "read-only / Fortran-ordered inputs give a different Theta")
    # ---- optimiser entry point, failing call: a covariance with a non-finite entry
    for (order, ro) in itertools.product(("C", "F"), (False, True)):
        Sbad = np.eye(3)
        Sbad[0, 1] = Sbad[1, 0] = np.nan
        args = {"S": form(Sbad, order, ro)}
        before = {k: snap(v) for k, v in args.items()}
        acc.n += 1
        try:
            admm.admm_optimize_theta(args["S"], 0.11, 1, 3, max_iterations=20)
        except Exception:
            pass
        ch = diff_names(before, args)
        if ch:
            acc.fail({"kind": "admm_nan", "order": order, "readonly": ro, "mode": mode},
                     "optimiser entry point modified a covariance holding a NaN (failing call)")
        acc.nontrivial += 1
    # ---- labelling step
    for (T, K) in ((1, 1), (4, 2), (5, 3)):
        t0 = rng.integers(0, 4, size=(T, K)).astype(np.float64)
        for (order, ro, bk) in itertools.product(("C", "F"), (False, True), ("scalar", "vector")):
            args = {"table": form(t0, order, ro), "beta": form(np.arange(T) % 3 + 0.5, "C", ro) if bk == "vector" else 1.5}
            before = {k: snap(v) for k, v in args.items()}
            acc.n += 1
            case = {"kind": "label", "T": T, "K": K, "order": order, "readonly": ro, "beta": bk, "mode": mode}
            try:
                out = cla.assign_point_cluster_labels(args["table"], args["beta"])
            except Exception as e:
                acc.fail(case, f"labelling step raised {type(e).__name__}: {e} on "
                               f"{'read-only ' if ro else ''}{order}-ordered inputs")
                continue
            ch = diff_names(before, args)
            if ch:
                acc.fail(case, f"labelling step modified {ch}")
            ref = cla.assign_point_cluster_labels(np.array(t0), args["beta"] if bk == "scalar" else np.array(args["beta"]))
            if [int(x) for x in out[0]] != [int(x) for x in ref[0]] or float(out[1]) != float(ref[1]):
                acc.fail(case, "read-only / Fortran-ordered table gives a different labelling")
            acc.nontrivial += 1
    # ---- relabel phase
    d = ml.get_driver("k2mat", 0)
    for (order, ro) in itertools.product(("C", "F"), (False, True)):
        X = form(d.X, order, ro)
        lam = form(d.lam, order, ro)
        beta = form(np.full(d.Tp, 2.0), "C", ro)
        a = arguments.UserArguments(sparsity_weight=lam, iteration_limit=1, label_switching_cost=beta,
                                    min_cluster_size=2, min_meaningful_covariance=0, num_clusters=2,
                                    num_processors=1, window_size=d.W, biased_covariance=True)
        m = model_state.ModelState.empty_model(a, X)
        m.point_labels = [0] * (d.Tp // 2) + [1] * (d.Tp - d.Tp // 2)
        from fast_ticc import cluster_maintenance, graphical_lasso
        args = {"X": X, "lambda": lam, "beta": beta}
        before = {k: snap(v) for k, v in args.items()}
        acc.n += 1
        case = {"kind": "relabel", "order": order, "readonly": ro, "mode": mode}
        try:
            m1 = cluster_maintenance.update_all_cluster_statistics(m, X)
            m2 = graphical_lasso.optimize_markov_random_fields(m1, X, seams.VirtualPool())
            snapm = seams.snapshot_parts(m2)
            m3 = cla.predict_cluster_labels(m2, X)
        except Exception as e:
            acc.fail(case, f"phase raised {type(e).__name__}: {e} on {'read-only ' if ro else ''}{order}-ordered data")
            continue
        ch = diff_names(before, args)
        if ch:
            acc.fail(case, f"statistics/optimise/relabel phases modified {ch}")
        acc.nontrivial += 1
    acc.sample({"kind": "kernels", "mode": mode})
    return acc.result()


def plan(tier, mode):
    cases = front_cases()
    if mode == "jit":
        cases = [c for c in cases if c[1] in ("success", "fault1") and c[4] == 0]
    return cases


def run_mode(ctx, mode):
    cases = plan(ctx.tier, mode)
    if mode == "jit":
        # no forking after the parallel kernel has run: one process
        res = [work_front((mode, cases)), work_kernels((mode,))]
    else:
        tasks = [(mode, cases[i::14]) for i in range(14)]
        res = ctx.pmap(work_front, tasks) + ctx.pmap(work_kernels, [(mode,)])
    return res


def run(ctx):
    from vlib import lib
    lib.load("nojit")
    for r in run_mode(ctx, "nojit"):
        ctx.take(r)
    n0 = ctx.cov["evaluations"]
    out = scratch_dir("c19_")
    path = os.path.join(out, "jit.json")
    try:
        p = subprocess.run([sys.executable, "-m", "vlib.run", "C19", "--tier", ctx.tier, "--mode", "jit",
                            "--arg", path], cwd=VERIF, stdout=subprocess.DEVNULL)
        if p.returncode != 0 or not os.path.exists(path):
            raise HarnessError(f"jit sub-process failed rc={p.returncode}")
        with open(path) as f:
            for r in json.load(f):
                ctx.take(r)
    finally:
        try:
            if os.path.exists(path):
                os.remove(path)
            os.rmdir(out)
        except OSError:
            pass
    ctx.cov["evaluations_interpreted"] = n0
    ctx.cov["evaluations_jit"] = ctx.cov["evaluations"] - n0
    ctx.cov["exhaustive"] = True
    ctx.cov["rule"] = (
        "front ends {single, joint} x outcome {success, int64 / float32 series, window_size 1, a per-pair cost with a negative entry, no-donor RuntimeError, optimiser fault at (round 0, cluster 1) "
        "and (round 1, cluster 0), wrong-kind TypeError} x (lambda matrix|scalar, beta vector|scalar) x eps {0,1e-2} x "
        "order {C,F} x {writable, read-only}; optimiser entry point x 4 shapes x order x writability x lambda form "
        "x rho {1,10} x callback; labelling step x 3 shapes x order x writability x beta form; statistics/optimise/"
        "relabel phases; interpreted (all) and JIT (success and fault paths). Oracle: byte-wise snapshots of every "
        "argument equal before/after; expected outcome type; read-only/F-ordered variants return the same result "
        "as writable C-ordered. non-trivial = read-only, F-ordered or failing calls")


def mode_main(mode, arg, tier, seed):
    from vlib.ctx import Ctx
    ctx = Ctx("C19", tier, seed)
    res = run_mode(ctx, mode)
    with open(arg, "w") as f:
        json.dump(res, f, default=lambda o: o.tolist() if hasattr(o, "tolist") else repr(o))
    return 0


def replay(ctx, case):
    from vlib import lib
    lib.load(case.get("mode", "nojit"))
    if case["kind"] == "front":
        ctx.take(work_front((case["mode"], [(case["entry"], case["outcome"], case["lambda"], case["beta"], case["eps"])])))
    else:
        ctx.take(work_kernels((case["mode"],)))
