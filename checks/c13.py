"""C13 - labels and cluster membership always describe one partition; a deep
copy shares nothing mutable; no phase alters the state it was given.

(a) E3: BFS over sequences of state operations on real ModelState objects
    (assign x5 labellings, deep/shallow copy, repopulate x2 draws, statistics,
    optimise, relabel) to depth 5 (thorough 6), with array-valued lambda and
    beta in the arguments, invariants after every operation on EVERY live
    object of the history.
(b) E2: the same invariants at every phase boundary of every traced run.
"""
import numpy as np

from vlib import mainloop as ml
from vlib import opseq
from vlib import drivers  # noqa: F401

LEVEL = "model_checking"
MONS = ["C13"]


@opseq.world("w2")
def _w2():
    s = ml.two_regime_series(8, 1, 3)
    X = ml.ref_stack(s, 2)                      # 7 x 2
    lam = np.array([[0.1, 0.3], [0.3, 0.2]])
    beta = np.array([1.0, 0.0, 2.0, 0.5, 3.0, 0.0, 1.0])
    return opseq.World(X, K=2, W=2, lam=lam, beta=beta, m=2)


@opseq.world("w3")
def _w3():
    s = ml.three_regime_series(9, 1, 17)
    X = ml.ref_stack(s, 1)                      # 9 x 1
    return opseq.World(X, K=3, W=1, lam=0.11, beta=1.0, m=1, biased=True)


def run(ctx):
    from vlib import lib
    lib.load("nojit")
    depth = 8 if ctx.thorough else 6
    tot_states = tot_trans = 0
    for wname in ("w2", "w3"):
        stats, samples = opseq.bfs(ctx, wname, depth if wname == "w2" else depth - 1)
        ctx.cov.setdefault("opseq", {})[wname] = dict(stats)
        tot_states += stats["states"]
        tot_trans += stats["transitions"]
        for s in samples:
            ctx.sample({"world": wname, "history": s})
    L = 20
    menu = [("k2a", [1, L], 1), ("k2m1", [L], 1), ("k2mat", [L], 0), ("k2flat", [L], 0)]
    if ctx.thorough:
        menu += [("k2vec", [L], 1), ("k3a", [L], 1), ("k2eps", [L], 1), ("k2big", [2, L], 1)]
    ps = ml.e2_plans(ctx, menu, MONS)
    # the loop's control skeleton (scripted relabel outputs, see C09): final states whose labels differ from the
    # labels last fitted, incl. an emptied or singleton cluster, for every label sequence up to length 3
    from checks.c09 import work_skeleton, SK_ALPHA
    for r in ctx.pmap(work_skeleton, [(limit, [f], ("first",), ['C13']) for limit in (1, 2, 3) for f in sorted(SK_ALPHA)]):
        ctx.take(r)
    ml.explore(ctx, ps)
    ml.e2_describe(ctx, ps)
    ctx.cov["states"] += tot_states
    ctx.cov["transitions"] += tot_trans
    ctx.cov["opseq_depth"] = depth
    ctx.cov["rule"] = (
        "(a) level-synchronous BFS over operation histories on real objects, alphabet "
        f"{[list(o) for o in opseq.ops_alphabet()]}, depth {depth} (world w3: {depth - 1}), deduplicated on "
        "(content digest of newest state, aliasing pattern with older live states); an operation that raises is "
        "'disabled there' (its input must still be untouched). (b) " + ctx.cov["rule"])
    ctx.cov["rule"] += (" Plus control-skeleton runs: the main loop with the relabel phase's output scripted, every label "
                        "sequence over 5 labellings up to length 3 (final labels that differ from the labels last fitted, "
                        "emptied and singleton clusters).")


def replay(ctx, case):
    if case.get("kind") == "skeleton":
        from vlib import lib
        lib.load("nojit")
        from checks.c09 import work_skeleton
        ctx.take(work_skeleton((case["limit"], [case["sequence"][0]], (case["draw"],), case.get("monitors", ['C13']))))
        return
    from vlib import lib
    lib.load("nojit")
    if "history" in case:
        from vlib.seams import TRACER
        TRACER.install()
        TRACER.deep = False
        h = tuple(tuple(o) for o in case["history"])
        msgs, _new, _key = opseq.check_last_op(opseq.get_world(case["world"]), h)
        ctx.cov["evaluations"] = 1
        for m in msgs:
            ctx.violation(case, m)
        return
    ml.replay_case(ctx, case, MONS, conform=True)
