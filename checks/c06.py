"""C06 - result fields are mutually consistent (cost and likelihood accounting).

E2 monitor on the RESULT ONLY of every enumerated run of both front ends, with
driver menus that force the interesting endings: beta in {0, 1, huge} (huge =>
a cluster ends empty), limit in {1,2,L}, scalar and per-pair beta, joint runs.

Known finding (same call site as C07): for joint runs with a scalar beta the
reported cost prices the pairs that straddle two series; a run whose cost
equals exactly -overall + switching cost over ALL consecutive pairs is
classified 'joint-boundary-priced'.
"""
from vlib import mainloop as ml
from vlib import drivers  # noqa: F401

LEVEL = "model_checking"
MONS = ["C06"]


def run(ctx):
    from vlib import lib
    lib.load("nojit")
    L = 20
    menu = [("k2a", [1, 2, L], 1), ("k2big", [1, 2, L], 0), ("k2zero", [1, L], 0), ("k2vec", [L], 0),
            ("k2off", [L], 0), ("k2off7", [L], 0)]
    jmenu = [("j2", [1, L], 0), ("j3", [L], 0)]
    if ctx.thorough:
        menu += [("k2b", [L], 1), ("k2m1", [1, L], 1), ("k3a", [1, L], 1), ("k2mat", [L], 0), ("k2eps", [L], 0),
                 ("k2w3", [L], 0)]
        jmenu += [("j1", [L], 0), ("j2zero", [L], 0)]
    ps = ml.e2_plans(ctx, menu, MONS, entry="front", conform=True)
    ps += ml.e2_plans(ctx, jmenu, MONS, entry="front", conform=True)
    ps += ml.e2_plans(ctx, [("long6k", [3], 0)], MONS, entry="front", conform=False, inits=drivers.long_inits)
    ml.explore(ctx, ps)
    ml.e2_describe(ctx, ps, "Monitor (result fields only): cost == -overall_ll + within-series switching cost "
                   "(tolerance 1e-9 x (sum|terms| + T max beta)); one all_log_likelihood entry per labelled point; "
                   "sum/mean/median of exactly those entries; per-cluster mean/median over exactly the points "
                   "labelled with that cluster (0 for an unused cluster). Runs with non-finite values (singleton "
                   "cluster under the unbiased estimator) are counted under monitor_skips.")


def replay(ctx, case):
    ml.replay_case(ctx, case, MONS, conform=False)
