"""C14 - results are reproducible and independent of process scheduling.

E4: (1) virtual pool: every completion-order script of the K optimisation tasks
of every round (K=2 and K=3 drivers); (2) real multiprocessing.Pool: worker
counts 1..8 x multiprocessing off/on x every feasible forced completion
permutation (turn-taking handshake), default mixture-model initialisation with
seeded global generators; (3) repeats in one process and across processes;
(4) histories: every sequence of up to h preceding calls from an alphabet of
call shapes before the probe call.  Oracle: complete result objects bitwise
equal to the reference (fresh process, single pool, default order).
"""
import hashlib
import itertools
import os
import random

import numpy as np

from vlib import mainloop as ml
from vlib import realpool
from vlib import drivers  # noqa: F401
from vlib.ctx import Acc, HarnessError, stopped
from vlib.seams import TRACER
from checks.c07 import FIELDS

LEVEL = "exploration"


def result_digest(res):
    """bit-exact digest of a complete result object (or of the raised exception's type)"""
    h = hashlib.blake2b(digest_size=16)
    if isinstance(res, BaseException):
        h.update(b"raise:" + type(res).__name__.encode())
        return h.hexdigest()

    def feed(o):
        if isinstance(o, (list, tuple)):
            h.update(b"[" + str(len(o)).encode())
            for x in o:
                feed(x)
        elif isinstance(o, np.ndarray):
            h.update(str(o.shape).encode())
            h.update(np.ascontiguousarray(o, dtype=np.float64 if o.dtype.kind == "f" else o.dtype).tobytes())
        elif isinstance(o, (float, np.floating)):
            h.update(np.float64(o).tobytes())
        elif isinstance(o, (int, np.integer)):
            h.update(b"i" + str(int(o)).encode())
        else:
            h.update(repr(o).encode())
    feed(res.point_labels)
    for f in FIELDS:
        h.update(f.encode())
        feed(getattr(res, f))
    return h.hexdigest()


# ---------------------------------------------------------------------- (1) virtual pool
def work_virtual(task):
    from vlib import lib
    lib.load("nojit")
    (name, seed, inits) = task[:3]
    acc = Acc()
    d = ml.get_driver(name, seed)
    K = d.K
    # a schedule for one round: (completion order, how many have finished when the parent first looks)
    menu = [(list(p), e) for p in itertools.permutations(range(K)) for e in range(K, -1, -1)]
    default = menu[0]                     # submission order, all finished
    dev_bound = task[3] if len(task) > 3 else 2
    for init in inits:
        if stopped():
            break
        ref = ml.real_run(d, init, 4, (), entry="front")
        acc.n += 1
        if ref.error is not None:
            acc.count("raised")
            continue
        R = len(ref.rounds)
        refd = result_digest(ref.result)
        scripts = []
        if len(menu) ** R <= 1300:
            scripts = list(itertools.product(range(len(menu)), repeat=R))
            acc.count("exhaustive_inits")
        else:
            for dev in range(1, dev_bound + 1):
                for rounds in itertools.combinations(range(R), dev):
                    for choice in itertools.product(range(1, len(menu)), repeat=dev):
                        sc = [0] * R
                        for r, c in zip(rounds, choice):
                            sc[r] = c
                        scripts.append(tuple(sc))
            acc.count(f"deviation_bounded_inits_le{dev_bound}")
        for sc in scripts:
            if not any(sc):
                continue
            orders = {r: menu[c] for r, c in enumerate(sc)}
            rec = ml.real_run(d, init, 4, (), entry="front", orders=orders)
            acc.n += 1
            acc.nontrivial += 1
            case = {"kind": "virtual", "driver": name, "seed": seed, "init": list(init),
                    "orders": {str(r): [menu[c][0], menu[c][1]] for r, c in enumerate(sc)}}
            if rec.error is not None:
                acc.fail(case, f"schedule {orders} makes the run raise {rec.error!r}")
            elif result_digest(rec.result) != refd:
                acc.fail(case, f"schedule {orders} (completion order, finished-before-gather) changes the result "
                               f"(labels {rec.result.point_labels} vs {ref.result.point_labels})")
    acc.sample({"kind": "virtual", "driver": name, "inits": len(inits)})
    return acc.result()


# ---------------------------------------------------------------------- (2),(3) real pool
def probe_data(K):
    if K == 3:
        # W=1: with W>1 the window straddling two regimes becomes a singleton mixture component
        return ml.three_regime_series(45, 2, 71), 1
    return ml.two_regime_series(20, 2, 73), 2


def probe_call(K, P=1, mp=False, orders=None, log=None, seed=99):
    """the probe: default path (real mixture model), seeded global generators, real pool.
    K == "repop": a K=2 run whose first relabelling collapses a cluster, so that round 1 draws
    donor points from the global Python generator."""
    import fast_ticc
    repop = (K == "repop")
    if repop:
        K = 2
    series, W = probe_data(K)
    np.random.seed(seed)
    random.seed(seed)
    if mp:
        os.environ["CUPCAKE_ENABLE_MULTIPROCESSING"] = "1"
    else:
        os.environ.pop("CUPCAKE_ENABLE_MULTIPROCESSING", None)
    TRACER.install()
    TRACER.deep = False
    if orders is None and log is None:
        factory = "real"
    else:
        factory = realpool.make_factory(K, orders=orders, log=log)
    TRACER.begin(init_labels=None, pool_factory=factory, real_random=True)
    try:
        res = fast_ticc.ticc_labels(series.copy(), window_size=W, num_clusters=K, sparsity_weight=0.11,
                                    label_switching_cost=1e6 if repop else 2.0, iteration_limit=4,
                                    num_processors=P, min_cluster_size=3 if repop else 2)
        global LAST_REPOPULATED
        LAST_REPOPULATED = any(ev["phase"] == "repop" and ev.get("out") is not ev.get("in") for ev in TRACER.events)
        return res
    finally:
        os.environ.pop("CUPCAKE_ENABLE_MULTIPROCESSING", None)


LAST_REPOPULATED = None


def task_precondition(task):
    """the repopulation probe, first thing in a fresh process, really repopulates (else the probe is useless)"""
    from vlib import lib
    lib.load("nojit")
    res = guarded_probe("repop")
    return (not isinstance(res, Exception)) and bool(LAST_REPOPULATED)


def guarded_probe(*a, **k):
    """the probe call; an exception is an outcome (its type is digested), not a harness failure"""
    try:
        return probe_call(*a, **k)
    except HarnessError:
        raise
    except Exception as e:
        return e


def sized_probe(P=1, mp=False, flag=False):
    """K=3, scripted initial labelling with cluster sizes 10/20/15 for ids 0/1/2 (largest-first order is the
    3-cycle (1,2,0), not its own inverse), real pool, num_processors = P"""
    import fast_ticc
    rng = np.random.default_rng(5150)
    parts = [rng.normal(0.0, 1.0, size=(10, 2)), rng.normal(4.0, 0.5, size=(20, 2)), rng.normal(-4.0, 0.8, size=(15, 2))]
    series = np.round(np.concatenate(parts), 3)
    if flag:
        # a status flag that is constant within each regime: a stacked column of exactly zero sample variance
        series = np.column_stack([series, np.array([0.0] * 10 + [1.0] * 20 + [0.0] * 15)])
    init = [0] * 10 + [1] * 20 + [2] * 15
    if mp:
        os.environ["CUPCAKE_ENABLE_MULTIPROCESSING"] = "1"
    else:
        os.environ.pop("CUPCAKE_ENABLE_MULTIPROCESSING", None)
    TRACER.install()
    TRACER.deep = False
    TRACER.begin(init_labels=init, pool_factory="real", real_random=True)
    try:
        return fast_ticc.ticc_labels(series.copy(), window_size=1, num_clusters=3, sparsity_weight=0.11,
                                     label_switching_cost=2.0, iteration_limit=3, num_processors=P, min_cluster_size=2)
    except HarnessError:
        raise
    except Exception as e:
        return e
    finally:
        os.environ.pop("CUPCAKE_ENABLE_MULTIPROCESSING", None)


def task_flagged(task):
    from vlib import lib
    lib.load("nojit")
    (P, mp) = task
    return result_digest(sized_probe(P, mp, flag=True))


def task_sized(task):
    from vlib import lib
    lib.load("nojit")
    (P, mp) = task
    return result_digest(sized_probe(P, mp))


def task_repop_workers(task):
    from vlib import lib
    lib.load("nojit")
    (P, mp) = task
    return result_digest(guarded_probe("repop", P=P, mp=mp))


def task_reference(task):
    from vlib import lib
    lib.load("nojit")
    (K,) = task
    res = probe_call(K)
    return result_digest(res), [int(x) for x in res.point_labels], len(TRACER.rounds())


def task_schedule(task):
    from vlib import lib
    lib.load("nojit")
    (K, P, mp, perm, rounds) = task[:5]
    eager = task[5] if len(task) > 5 else None
    log = []
    orders = None
    if perm is not None:
        orders = {r: (list(perm) if eager is None else (list(perm), eager)) for r in range(rounds)}
    res = guarded_probe(K, P=P, mp=mp, orders=orders, log=log)
    tp = log[0] if log else None
    arrivals = list(tp.arrivals) if tp else []
    want = [(r, i) for r in range(rounds) for i in perm] if perm is not None else None
    if log and log[0] is None:
        want = None          # not a process pool: nothing to schedule, the result is still compared
    pids = sorted(set(tp.pids.values())) if tp else []
    assign = tuple(tp.pids.get((0, i)) for i in range(K)) if tp else ()
    # distinct task->worker patterns (canonical: order of first appearance)
    canon = []
    for p in assign:
        if p not in canon:
            canon.append(p)
    pattern = tuple(canon.index(p) for p in assign)
    return {"digest": result_digest(res), "arrivals": arrivals, "want": want, "workers": len(pids),
            "pattern": pattern, "live_children_after": realpool.live_children()}


def task_repeat(task):
    from vlib import lib
    lib.load("nojit")
    (K,) = task
    a = result_digest(guarded_probe(K))
    b = result_digest(guarded_probe(K))
    return a, b


# ---------------------------------------------------------------------- (4) histories
def history_call(shape):
    """one preceding call; shapes differ from / equal the probe's"""
    import fast_ticc
    TRACER.install()
    TRACER.deep = False
    TRACER.begin(init_labels=None, pool_factory="real", real_random=True)
    try:
        if shape == "other_shape":
            s = ml.two_regime_series(16, 3, 5)
            fast_ticc.ticc_labels(s, window_size=3, num_clusters=2, sparsity_weight=0.3, label_switching_cost=1.0,
                                  iteration_limit=2, min_cluster_size=2)
        elif shape == "same_shape":
            s = ml.two_regime_series(20, 2, 79) * 3.0
            fast_ticc.ticc_labels(s, window_size=2, num_clusters=2, sparsity_weight=np.full((4, 4), 0.2),
                                  label_switching_cost=0.5, iteration_limit=3, min_cluster_size=2)
        elif shape == "joint":
            a = ml.two_regime_series(12, 2, 83)
            b = ml.two_regime_series(10, 2, 89)
            fast_ticc.ticc_joint_labels([a, b], window_size=2, num_clusters=2, sparsity_weight=0.11,
                                        label_switching_cost=1.0, iteration_limit=2, min_cluster_size=2)
        elif shape == "solver_in_process":
            # the caller uses the public optimiser itself, in this very process, on shapes that share
            # N*W with the probe but factor differently (memoised helpers stay warm in the parent and
            # are inherited by every worker forked later)
            from fast_ticc import admm
            for (N, W) in ((4, 1), (1, 4), (2, 2), (1, 2), (2, 1)):
                n = N * W
                S = np.eye(n) + 0.3 * np.ones((n, n))
                admm.admm_optimize_theta(S, 0.2, W, N, max_iterations=30)
                admm.admm_optimize_theta(S, np.full((n, n), 0.1), W, N, max_iterations=30)
        elif shape == "same_data_other_seed":
            # exactly the probe's call, from a different state of the global generators
            for KK in (2, "repop"):
                try:
                    probe_call(KK, seed=4711)
                except HarnessError:
                    raise
                except Exception:
                    pass
        elif shape == "failing":
            try:
                fast_ticc.ticc_labels([np.zeros((5, 2))], window_size=2, num_clusters=2)
            except TypeError:
                pass
            try:
                s = ml.two_regime_series(12, 2, 97)
                fast_ticc.ticc_labels(s, window_size=2, num_clusters=2, label_switching_cost=1e9,
                                      iteration_limit=3, min_cluster_size=50)
            except RuntimeError:
                pass
        else:
            raise HarnessError(shape)
    except HarnessError:
        raise
    except Exception:
        pass        # a history call that raises is still a history


SHAPES = ("other_shape", "same_shape", "joint", "failing", "solver_in_process", "same_data_other_seed")


def task_history(task):
    from vlib import lib
    lib.load("nojit")
    (hist,) = task
    for sh in hist:
        history_call(sh)
    return result_digest(guarded_probe(2)) + "/" + result_digest(guarded_probe("repop"))


def run(ctx):
    from vlib import lib
    lib.load("nojit")
    # (1)
    vt = []
    if ctx.thorough:
        vplan = [("k2a", 1, 2), ("k2b", 4, 2), ("k2mat", 4, 2), ("k3a", 27, 1), ("k3a", 243, 2), ("k3b", 243, 1)]
    else:
        vplan = [("k2a", 5, 2), ("k3a", 243, 1)]
    for (name, step, dev) in vplan:
        d = ml.get_driver(name, ctx.seed)
        inits = ml.all_labellings(d.Tp, d.K)[::step]
        per = 1 if d.K > 2 else 2
        for lo in range(0, len(inits), per):
            vt.append((name, ctx.seed, inits[lo:lo + per], dev))
    if os.environ.get("VERIF_C14_PARTS", "virtual,real").find("virtual") < 0:
        vt = []         # diagnostic switch: run the real-pool part alone
    for r in ctx.pmap(work_virtual, vt):
        ctx.take(r)
    # (2) real pool
    acc = Acc()
    for K in (3, 2) if ctx.thorough else (3,):
        (refd, reflabels, rounds) = realpool.fresh_map(task_reference, [(K,)])[0]
        sched = []
        for mp in (False, True):
            for P in range(1, 9):
                eff = P if mp else 1
                perms = realpool.feasible_perms(K, eff)
                if mp is False and P > 1:
                    perms = [None]          # same pool as P=1: one unforced run per P is enough
                for perm in perms:
                    sched.append((K, P, mp, perm, rounds))
                    # with a worker per task, also script how many tasks have finished when the parent first
                    # looks (the rest finish only as it blocks or polls) - same schedule space as the virtual pool
                    if mp and perm is not None and eff >= K and P in (K, 8):
                        for eager in range(K):
                            sched.append((K, P, mp, perm, rounds, eager))
        outs = realpool.fresh_map(task_schedule, sched, jobs=8, timeout=120)
        patterns = set()
        for t, o in zip(sched, outs):
            acc.n += 1
            case = {"kind": "real", "K": t[0], "P": t[1], "multiprocessing": t[2],
                    "perm": None if t[3] is None else list(t[3]), "rounds": rounds,
                    "eager": t[5] if len(t) > 5 else None}
            if o["want"] is not None and [tuple(a) for a in o["arrivals"]][:len(o["want"])] != o["want"]:
                raise HarnessError(f"schedule {case} not enforced: arrivals {o['arrivals']} wanted {o['want']}")
            if t[3] is not None and list(t[3]) != sorted(t[3]):
                acc.nontrivial += 1
            patterns.add((t[1], t[2], o["pattern"]))
            acc.peak("max_workers_observed", o["workers"])
            if o["digest"] != refd:
                acc.fail(case, f"P={t[1]} multiprocessing={'on' if t[2] else 'off'} completion order {t[3]}: "
                               f"result differs from the single-pool reference")
            if o["live_children_after"]:
                acc.fail(case, f"{len(o['live_children_after'])} worker process(es) alive after a successful call")
        acc.count("real_pool_schedules", by=len(sched))
        acc.count("distinct_task_to_worker_patterns_observed", by=len(patterns))
        acc.sample({"kind": "real", "K": K, "schedules": len(sched), "rounds": rounds,
                    "example": [list(map(str, s)) for s in sched[:3]]})
        # (3) repeats (also with a probe that repopulates, i.e. consumes the global Python generator)
        if not realpool.fresh_map(task_precondition, [None])[0]:
            raise HarnessError("the probe built to empty a cluster in round 0 (beta 1e6, min_cluster_size 3) completed "
                               "without a repopulation in a fresh process: the repeat / history sub-checks would be vacuous")
        for KK in (K, "repop"):
            [(a, b), (c, _d)] = realpool.fresh_map(task_repeat, [(KK,), (KK,)])
            acc.n += 3
            acc.nontrivial += 3
            if a != b:
                acc.fail({"kind": "repeat", "K": KK}, f"two same-seed runs ({KK}) in one process differ")
            if a != c:
                acc.fail({"kind": "repeat", "K": KK}, f"same-seed runs ({KK}) in two processes differ")
    # (2b) worker count alone, on a probe whose clusters have distinct sizes (anything that reorders tasks by
    # size and puts results back must be the identity on the result)
    sized = [(P, mp) for mp in (False, True) for P in range(1, 9)]
    outs = realpool.fresh_map(task_sized, sized, jobs=8, timeout=120)
    for t, o in zip(sized, outs):
        acc.n += 1
        acc.nontrivial += 1
        if o != outs[0]:
            acc.fail({"kind": "sized", "P": t[0], "multiprocessing": t[1]},
                     f"num_processors={t[0]} multiprocessing={'on' if t[1] else 'off'}: result differs from num_processors=1 "
                     f"(clusters of sizes 10/20/15)")
    # (2d) the same with a flag column that is constant within each cluster (zero-variance stacked column)
    flagged = [(P, mp) for mp in (False, True) for P in (1, 2, 3, 8)]
    outs = realpool.fresh_map(task_flagged, flagged, jobs=8, timeout=120)
    for t, o in zip(flagged, outs):
        acc.n += 1
        acc.nontrivial += 1
        if o != outs[0]:
            acc.fail({"kind": "flagged", "P": t[0], "multiprocessing": t[1]},
                     f"num_processors={t[0]} multiprocessing={'on' if t[1] else 'off'}: result differs from num_processors=1, "
                     f"multiprocessing off (data with a status flag constant within each cluster)")
    # (2c) worker count alone, on the probe that repopulates with the library's own draws from the global generator
    outs = realpool.fresh_map(task_repop_workers, sized, jobs=8, timeout=120)
    for t, o in zip(sized, outs):
        acc.n += 1
        acc.nontrivial += 1
        if o != outs[0]:
            acc.fail({"kind": "repop_workers", "P": t[0], "multiprocessing": t[1]},
                     f"num_processors={t[0]} multiprocessing={'on' if t[1] else 'off'}: the run that repopulates (donor "
                     f"points drawn from the seeded global generator) differs from num_processors=1")
    # (4) histories
    h = 3 if ctx.thorough else 2
    hists = [()]
    for n in range(1, h + 1):
        hists += list(itertools.product(SHAPES, repeat=n))
    outs = realpool.fresh_map(task_history, [(hh,) for hh in hists], jobs=16, timeout=180)
    base = outs[0]
    for hh, o in zip(hists, outs):
        acc.n += 1
        if hh:
            acc.nontrivial += 1
        if o != base:
            acc.fail({"kind": "history", "history": list(hh)},
                     f"probe result after the call history {list(hh)} differs from the result in a fresh process")
    acc.count("histories", by=len(hists))
    acc.sample({"kind": "history", "depth": h, "alphabet": list(SHAPES), "histories": len(hists)})
    ctx.take(acc.result())
    ctx.cov["exhaustive"] = True
    ctx.cov["rule"] = (
        "(1) virtual pool, scripted initial labellings (quick: every 5th of k2a, every 243rd of k3a; thorough: all of k2a, every 4th of k2b/k2mat, "
        "every 27th of k3a, every 243rd of k3b; iteration limit 4): every schedule script = per round (completion permutation of the K tasks, number of tasks "
        "already finished when the parent first inspects a result; the rest finish only as the parent blocks or polls), "
        "exhaustive when (K!(K+1))^rounds <= 1300, else every script with <= 2 (K=3 quick: 1) non-default rounds; (2) real multiprocessing.Pool, default "
        "GMM path with seeded global RNGs: num_processors 1..8 x CUPCAKE_ENABLE_MULTIPROCESSING off/on x every "
        "feasible forced completion permutation (handshake), and for P in {K, 8} every (permutation, finished-before-the-parent-looks) script as on the virtual pool; a schedule "
        "whose arrival log differs from its script is a harness error; (2b) num_processors 1..8 x multiprocessing off/on on a scripted K=3 probe with cluster sizes 10/20/15; (2d) the sized probe with a status-flag column constant within each cluster, num_processors {1,2,3,8} x multiprocessing off/on; (2c) num_processors 1..8 x multiprocessing off/on on the probe that repopulates with the library's own donor draws; (3) same seeds twice in one process and "
        "across processes, for the ordinary probe and for a probe that repopulates (draws from the global Python generator); (4) every history of up to " + str(h) + " preceding calls from "
        + str(list(SHAPES)) + " before the probe, each history in its own fresh process. Oracle: complete result "
        "bitwise equal to the reference. non-trivial = non-default orders / non-empty histories")
    ctx.assumptions += [
        "task-to-worker assignment is observed (reported), not forced",
        "BLAS/OpenMP threading pinned to 1 thread by the check environment",
        "OS-level interleaving inside a worker is irrelevant: workers share no memory"]


def replay(ctx, case):
    from vlib import lib
    lib.load("nojit")
    k = case["kind"]
    acc = Acc()
    if k == "virtual":
        ctx.take(work_virtual((case["driver"], case["seed"], [tuple(case["init"])], 2)))
        return
    if k == "real":
        K = case["K"]
        (refd, _l, rounds) = realpool.fresh_map(task_reference, [(K,)])[0]
        perm = None if case["perm"] is None else tuple(case["perm"])
        tt = (K, case["P"], case["multiprocessing"], perm, rounds) + ((case["eager"],) if case.get("eager") is not None else ())
        o = realpool.fresh_map(task_schedule, [tt])[0]
        acc.n = 1
        if o["digest"] != refd:
            acc.fail(case, "result differs from the single-pool reference")
    elif k == "sized":
        outs = realpool.fresh_map(task_sized, [(1, False), (case["P"], case["multiprocessing"])])
        acc.n = 1
        if outs[0] != outs[1]:
            acc.fail(case, "result depends on num_processors")
    elif k == "flagged":
        outs = realpool.fresh_map(task_flagged, [(1, False), (case["P"], case["multiprocessing"])])
        acc.n = 1
        if outs[0] != outs[1]:
            acc.fail(case, "result depends on num_processors / multiprocessing (flag column)")
    elif k == "repop_workers":
        outs = realpool.fresh_map(task_repop_workers, [(1, False), (case["P"], case["multiprocessing"])])
        acc.n = 1
        if outs[0] != outs[1]:
            acc.fail(case, "the run that repopulates depends on num_processors")
    elif k == "history":
        outs = realpool.fresh_map(task_history, [((),), (tuple(case["history"]),)])
        acc.n = 1
        if outs[0] != outs[1]:
            acc.fail(case, "probe result depends on the call history")
    elif k == "repeat":
        (a, b) = realpool.fresh_map(task_repeat, [(case["K"],)])[0]
        acc.n = 1
        if a != b:
            acc.fail(case, "two same-seed runs differ")
    ctx.take(acc.result())
