"""C15 - Numba acceleration is semantically transparent.

Mode runner: the same enumerated workloads are executed in three separate
processes - JIT enabled, NUMBA_DISABLE_JIT=1, Numba not importable - and, with
JIT enabled, for numba thread counts {1,2,4,8,16}; outputs are compared case by
case.  Workloads: (i) the labelling kernel over every table of the C01 quick
alphabet with T*K<=6 plus a real-valued alphabet; (ii) the likelihood table
over shapes x memory layouts; (iii) complete scripted runs for every initial
labelling of the smallest driver and front-end inputs of other dtypes/orders;
(iv) interpreted modes: the parallel loop's iteration order permuted (every
permutation for T<=5).
"""
import itertools
import os
import pickle
import subprocess
import sys
import tempfile

import numpy as np

from vlib import refs
from vlib import mainloop as ml
from vlib import drivers  # noqa: F401
from vlib.ctx import scratch_dir, HarnessError, VERIF
from checks.c01 import ALPHABETS, tables_block
from checks.c05 import base_matrices, make_model

LEVEL = "exploration"
MODES = ("jit", "nojit", "absent")
REAL_ALPHA = (0.1, 0.7, -1.3, 1e-9, 1e9)
THREADS = (1, 2, 4, 8, 16)


# ---------------------------------------------------------------------- workloads (run inside a mode process)
def label_cases(tier):
    lim = 8 if tier == "thorough" else 6
    out = []
    for T in range(1, lim + 1):
        for K in range(1, lim + 1):
            if T * K > lim:
                continue
            total = 3 ** (T * K)
            tabs = tables_block(T, K, "base3", 0, total)
            betas = [0.0, 1.0, 5.0, 2] + [np.array(v, dtype=np.float64) for v in itertools.product((0.0, 2.0), repeat=T)][:8]
            out.append((T, K, "int", tabs, betas))
            if T * K <= 4:
                # tables holding non-finite costs (what a degenerate cluster hands the kernel): every mode must
                # treat them alike - compared with NaN == NaN
                for tag, vals in (("nan", np.array([0.0, 1.0, np.nan])), ("inf", np.array([0.0, 1.0, np.inf]))):
                    n = 3 ** (T * K)
                    idx = np.arange(n)
                    digits = np.empty((n, T * K), dtype=np.int64)
                    for c in range(T * K - 1, -1, -1):
                        digits[:, c] = idx % 3
                        idx = idx // 3
                    out.append((T, K, tag, vals[digits].reshape(n, T, K), [0.0, 1.0]))
            if T * K <= 4 or tier == "thorough":
                vals = np.array(REAL_ALPHA)
                n = len(vals) ** (T * K)
                idx = np.arange(n)
                digits = np.empty((n, T * K), dtype=np.int64)
                for c in range(T * K - 1, -1, -1):
                    digits[:, c] = idx % len(vals)
                    idx = idx // len(vals)
                out.append((T, K, "real", vals[digits].reshape(n, T, K), [0.0, 0.3, 1.7]))
    return out


def wl_labels(tier):
    from fast_ticc import cluster_label_assignment as cla
    res = {}
    for (T, K, kind, tabs, betas) in label_cases(tier):
        for bi, beta in enumerate(betas):
            labs = np.empty((len(tabs), T), dtype=np.int64)
            costs = np.empty(len(tabs))
            for i in range(len(tabs)):
                try:
                    l, c = cla.assign_point_cluster_labels(tabs[i], beta)
                    labs[i] = [int(x) for x in l]
                    costs[i] = float(c)
                except Exception:       # a mode in which the kernel raises differs from the others
                    labs[i] = -7
                    costs[i] = np.nan
            res[(T, K, kind, bi)] = (labs, costs)
    return res


def lik_cases():
    out = []
    for NW in ((1, 2, 6, 40, 100) if os.environ.get("VERIF_TIER_EFFECTIVE") == "thorough" else (1, 2, 6, 40)):
        bm = base_matrices(NW)
        for K in (1, 2, 3):
            thetas = [bm[k % len(bm)][1] * (1.0 + 0.5 * k) for k in range(K)]
            for T in (1, 2, 5, 17) + ((600, 601) if (NW, K) in ((2, 3), (6, 2)) else ()):
                rng = np.random.default_rng(1000 * NW + 10 * K + T)
                X = np.round(rng.normal(size=(T, NW)) * 2, 3)
                if T == 601:
                    # sample-and-hold data: runs of identical consecutive rows (any shortcut that reuses the
                    # previous row's result crosses the boundary between two threads' shares somewhere)
                    X = np.repeat(X[:87], 7, axis=0)[:T]
                means = [np.round(rng.normal(size=NW), 3) for _ in range(K)]
                out.append((NW, K, T, thetas, means, X))
    return out


def layouts(X):
    T, NW = X.shape
    big = np.zeros((T * 2, NW * 2))
    big[::2, ::2] = X
    return {"C": np.ascontiguousarray(X), "F": np.asfortranarray(X), "strided": big[::2, ::2]}


def wl_likelihood(perm_orders=False, only_long=False):
    from fast_ticc import likelihood, numba_guard
    res = {}
    for (NW, K, T, thetas, means, X) in lik_cases():
        if only_long and T < 600:
            continue
        W = 2 if NW % 2 == 0 else 1
        for (ln, Xl) in layouts(X).items():
            m = make_model(thetas, means, W, K)
            try:
                res[(NW, K, T, ln)] = np.array(likelihood.all_points_all_clusters_log_likelihood(m, Xl))
            except Exception:
                res[(NW, K, T, ln)] = np.full((T, K), np.nan)
        if T in (5, 17) and not only_long:
            # stacked data of other real dtypes (values exact in every one of them): a mode-specific code path
            # may not compute in, or return, a narrower type
            Xq = np.round(X * 4)
            for (dn, Xd) in (("int64", Xq.astype(np.int64)), ("int32", Xq.astype(np.int32)),
                             ("float32", (Xq / 4).astype(np.float32)),
                             ("bigendian", Xq.astype(np.dtype(np.float64).newbyteorder()))):
                m = make_model(thetas, means, W, K)
                try:
                    t = likelihood.all_points_all_clusters_log_likelihood(m, Xd)
                    res[("dtype", NW, K, T, dn)] = (str(np.asarray(t).dtype), np.array(t, dtype=np.float64))
                except Exception as e:
                    res[("dtype", NW, K, T, dn)] = ("raise:" + type(e).__name__, None)
            # finite inputs whose log-density is not finite: a row so large that the quadratic form overflows,
            # a precision matrix with determinant 0 - every mode must answer alike
            for (en, Xe, ths) in (("huge_row", np.where(np.arange(T)[:, None] == 1, 1e200, X), thetas),
                                  ("dblmax_row", np.where(np.arange(T)[:, None] == T - 1, 8e307, X), thetas),
                                  ("singular", X, [th * 0.0 for th in thetas])):
                m = make_model(ths, means, W, K)
                with np.errstate(all="ignore"):
                    try:
                        t = likelihood.all_points_all_clusters_log_likelihood(m, np.ascontiguousarray(Xe))
                        res[("extreme", NW, K, T, en)] = ("ok", np.array(t, dtype=np.float64))
                    except Exception as e:
                        res[("extreme", NW, K, T, en)] = ("raise:" + type(e).__name__, None)
        if perm_orders:
            # the parallel loop must not depend on iteration order (no loop-carried state)
            base = res[(NW, K, T, "C")]
            orders = list(itertools.permutations(range(T))) if T <= 5 else \
                [tuple(reversed(range(T))), tuple(list(range(0, T, 2)) + list(range(1, T, 2))),
                 tuple(list(range(T // 2, T)) + list(range(T // 2)))]
            orig = numba_guard.prange
            bad = None
            try:
                for o in orders:
                    def fake(n, _o=o):
                        if n != len(_o):
                            return orig(n)
                        return iter(_o)
                    numba_guard.prange = fake
                    m = make_model(thetas, means, W, K)
                    t = np.array(likelihood.all_points_all_clusters_log_likelihood(m, X))
                    if t.tobytes() != base.tobytes():
                        bad = o
                        break
            finally:
                numba_guard.prange = orig
            res[("order", NW, K, T)] = (len(orders), bad)
    return res


def wl_runs(tier):
    """complete scripted runs: final labels per initial labelling; other input dtypes / orders"""
    res = {}
    d = ml.get_driver("k2a", 0)
    inits = ml.all_labellings(d.Tp, d.K)
    if tier != "thorough":
        inits = inits[::4]
    for init in inits:
        rec = ml.real_run(d, init, 6, (), entry="front")
        if rec.error is not None:
            res[("run", init)] = ("raise", type(rec.error).__name__)
        else:
            res[("run", init)] = ("ok", [int(x) for x in rec.result.point_labels],
                                  float(rec.result.label_assignment_cost),
                                  [np.array(a) for a in rec.result.markov_random_fields])
    s = d.series[0]
    init = tuple(0 if i < d.Tp // 2 else 1 for i in range(d.Tp))
    variants = {"float64": s, "float32": s.astype(np.float32), "int64": np.round(s * 4).astype(np.int64),
                "fortran": np.asfortranarray(np.round(s * 4))}
    for name, arr in variants.items():
        dv = ml.Driver("k2a_" + name, [np.asarray(arr, dtype=np.float64)], W=d.W, K=d.K, beta=d.beta, m=d.m)
        dv.series = [arr]          # hand the front end the array in its original dtype / order
        rec = ml.real_run(dv, init, 6, (), entry="front")
        res[("dtype", name)] = ("raise", type(rec.error).__name__) if rec.error is not None else \
            ("ok", [int(x) for x in rec.result.point_labels], float(rec.result.label_assignment_cost))
    # the main loop handed stacked data of another real dtype directly (the front ends always stack into float64)
    Xq = np.round(d.X * 4)
    for name, arr in {"stacked_float64": Xq, "stacked_int64": Xq.astype(np.int64), "stacked_float32": Xq.astype(np.float32)}.items():
        dv = ml.Driver("k2a_" + name, d.series, W=d.W, K=d.K, beta=d.beta, m=d.m)
        dv.X = arr
        rec = ml.real_run(dv, init, 6, (), entry="fit")
        res[("dtype", name)] = ("raise", type(rec.error).__name__) if rec.error is not None else \
            ("ok", [int(x) for x in rec.result.point_labels], float(rec.result.label_assignment_cost))
    return res


def mode_main(mode, arg, tier, seed):
    os.environ["VERIF_TIER_EFFECTIVE"] = tier
    from vlib import lib
    lib.load(mode)
    from fast_ticc import numba_guard
    out = {"mode": mode, "numba_available": bool(numba_guard.NUMBA_AVAILABLE)}
    out["labels"] = wl_labels(tier)
    out["lik"] = wl_likelihood(perm_orders=(mode != "jit"))
    if mode == "jit":
        import numba
        out["threads"] = {}
        top = numba.config.NUMBA_NUM_THREADS
        for n in THREADS:
            if n > top:
                continue
            numba.set_num_threads(n)
            out["threads"][n] = {k: v for k, v in wl_likelihood().items()}
            # unsynchronised sharing between loop iterations is timing dependent: run the long tables
            # several times free-running at this thread count (any deviating repeat is kept)
            for rep in range(6):
                again = wl_likelihood(only_long=True)
                for k, v in again.items():
                    if v.tobytes() != out["threads"][n][k].tobytes():
                        out["threads"][n][k] = v
        numba.set_num_threads(top)
    out["runs"] = wl_runs(tier)
    with open(arg, "wb") as f:
        pickle.dump(out, f)
    return 0


# ---------------------------------------------------------------------- comparison (parent)
def run(ctx):
    os.environ["VERIF_TIER_EFFECTIVE"] = ctx.tier
    tmp = scratch_dir("c15_")
    outs = {}
    try:
        procs = {}
        for mode in MODES:
            path = os.path.join(tmp, mode + ".pkl")
            procs[mode] = (subprocess.Popen([sys.executable, "-m", "vlib.run", "C15", "--tier", ctx.tier,
                                             "--mode", mode, "--arg", path], cwd=VERIF,
                                            stdout=subprocess.DEVNULL), path)
        for mode, (p, path) in procs.items():
            rc = p.wait()
            if rc != 0 or not os.path.exists(path):
                raise HarnessError(f"mode process {mode} failed rc={rc}")
            with open(path, "rb") as f:
                outs[mode] = pickle.load(f)
    finally:
        for f in os.listdir(tmp):
            os.remove(os.path.join(tmp, f))
        os.rmdir(tmp)
    if outs["absent"]["numba_available"] or not outs["jit"]["numba_available"]:
        raise HarnessError("mode processes did not run in the intended modes")
    ev = 0
    nontrivial = 0
    cases_cache = {(T, K, kind): (tabs, betas) for (T, K, kind, tabs, betas) in label_cases(ctx.tier)}
    ref = outs["jit"]
    # (i) labelling kernel
    for key, (labs, costs) in ref["labels"].items():
        (T, K, kind, bi) = key
        for mode in ("nojit", "absent"):
            l2, c2 = outs[mode]["labels"][key]
            ev += len(labs)
            if T > 1 and K > 1:
                nontrivial += len(labs)
            bad = np.flatnonzero((labs != l2).any(axis=1))
            if kind in ("int", "nan", "inf"):
                badc = np.flatnonzero(~((costs == c2) | (np.isnan(costs) & np.isnan(c2))))
            else:
                badc = np.flatnonzero(~(np.abs(costs - c2) <= 1e-12 * np.maximum(1.0, np.abs(costs))))
            if len(bad) or len(badc):
                i = int(bad[0] if len(bad) else badc[0])
                tabs, betas = cases_cache[(T, K, kind)]
                b = betas[bi]
                ctx.violation({"kind": "label", "table": tabs[i].tolist(), "beta": b.tolist() if hasattr(b, "tolist") else b,
                               "modes": ["jit", mode]},
                              f"labelling kernel: jit gives {labs[i].tolist()}/{costs[i]!r}, {mode} gives "
                              f"{l2[i].tolist()}/{c2[i]!r} for table {tabs[i].tolist()} beta {b}")
    # (ii) likelihood table across modes, layouts, thread counts, iteration orders; and vs the reference
    for (NW, K, T, thetas, means, X) in lik_cases():
        want = np.empty((T, K))
        scale = np.empty((T, K))
        for k in range(K):
            for i in range(T):
                want[i, k], scale[i, k] = refs.gaussian_logpdf_precision(X[i], means[k], thetas[k])
        tables = {}
        for mode in MODES:
            for ln in ("C", "F", "strided"):
                tables[(mode, ln)] = outs[mode]["lik"][(NW, K, T, ln)]
        for n, tl in ref.get("threads", {}).items():
            for ln in ("C", "F", "strided"):
                tables[(f"jit/{n}threads", ln)] = tl[(NW, K, T, ln)]
        for who, t in tables.items():
            ev += 1
            nontrivial += 1 if (who[0] != "jit" or who[1] != "C") else 0
            if t.shape != want.shape or not np.all(np.abs(t - want) <= 1e-10 * scale):
                ctx.violation({"kind": "lik", "NW": NW, "K": K, "T": T, "who": list(who)},
                              f"likelihood table ({who[0]}, {who[1]} layout) for NW={NW} K={K} T={T} differs from "
                              f"the Gaussian log-density by {float(np.max(np.abs(t - want) / scale)):.3g} x scale")
        # other dtypes / non-finite outcomes: same outcome in every mode and thread count
        if T in (5, 17):
            Xq = np.round(X * 4)
            wantq = np.empty((T, K))
            scaleq = np.empty((T, K))
            for k in range(K):
                for i in range(T):
                    wantq[i, k], scaleq[i, k] = refs.gaussian_logpdf_precision(Xq[i], means[k], thetas[k])
            sources = [(mode, outs[mode]["lik"]) for mode in MODES] + \
                      [(f"jit/{n}threads", tl) for n, tl in ref.get("threads", {}).items()]
            for dn in ("int64", "int32", "float32", "bigendian"):
                key = ("dtype", NW, K, T, dn)
                for who, src in sources:
                    ev += 1
                    nontrivial += 1
                    (tag, t) = src[key]
                    wq = wantq if dn != "float32" else None
                    if dn == "float32" and who == sources[0][0]:
                        pass
                    if tag != "float64":
                        ctx.violation({"kind": "lik_dtype", "NW": NW, "K": K, "T": T, "dtype": dn, "who": who},
                                      f"likelihood table for {dn} stacked data in mode {who}: {tag} "
                                      f"(NW={NW} K={K} T={T}); float64 data gives a float64 table in every mode")
                        continue
                    if dn == "float32":
                        # the float32 data are Xq/4: compare against that
                        wq = np.empty((T, K))
                        sq = np.empty((T, K))
                        for k in range(K):
                            for i in range(T):
                                wq[i, k], sq[i, k] = refs.gaussian_logpdf_precision(Xq[i] / 4, means[k], thetas[k])
                    else:
                        sq = scaleq
                    if t.shape != wq.shape or not np.all(np.abs(t - wq) <= 1e-10 * sq):
                        ctx.violation({"kind": "lik_dtype", "NW": NW, "K": K, "T": T, "dtype": dn, "who": who},
                                      f"likelihood table for {dn} stacked data in mode {who} differs from the Gaussian "
                                      f"log-density by {float(np.max(np.abs(t - wq) / sq)):.3g} x scale (NW={NW} K={K} T={T})")
            for en in ("huge_row", "dblmax_row", "singular"):
                key = ("extreme", NW, K, T, en)
                (tag0, t0) = sources[0][1][key]
                for who, src in sources[1:]:
                    ev += 1
                    nontrivial += 1
                    (tag, t) = src[key]
                    same = tag == tag0 and (t is None or (
                        t.shape == t0.shape and np.array_equal(np.isnan(t), np.isnan(t0))
                        and np.array_equal(np.isposinf(t), np.isposinf(t0)) and np.array_equal(np.isneginf(t), np.isneginf(t0))
                        and np.all(np.abs(np.where(np.isfinite(t), t, 0.0) - np.where(np.isfinite(t0), t0, 0.0))
                                   <= 1e-9 * (1.0 + np.abs(np.where(np.isfinite(t0), t0, 0.0))))))
                    if not same:
                        where = ""
                        if t is not None and t0 is not None and t.shape == t0.shape:
                            neq = ~((t == t0) | (np.isnan(t) & np.isnan(t0)))
                            if neq.any():
                                (pi, ki) = np.argwhere(neq)[0]
                                where = f" at point {pi}, cluster {ki}: {t0[pi, ki]!r} vs {t[pi, ki]!r}"
                        ctx.violation({"kind": "lik_extreme", "NW": NW, "K": K, "T": T, "input": en, "who": who},
                                      f"likelihood table for the '{en}' input (finite data, non-finite log-density): "
                                      f"{sources[0][0]} gives {tag0}, {who} gives {tag}{where} (NW={NW} K={K} T={T})")
        # thread-count independence: bitwise among jit runs of the same layout
        for ln in ("C", "F", "strided"):
            base = tables[("jit", ln)]
            for n in ref.get("threads", {}):
                ev += 1
                if tables[(f"jit/{n}threads", ln)].tobytes() != base.tobytes():
                    ctx.violation({"kind": "threads", "NW": NW, "K": K, "T": T, "threads": n, "layout": ln},
                                  f"likelihood table depends on the number of threads ({n}) for NW={NW} K={K} T={T}")
        for mode in ("nojit", "absent"):
            (norders, bad) = outs[mode]["lik"][("order", NW, K, T)]
            ev += norders
            nontrivial += norders
            if bad is not None:
                ctx.violation({"kind": "order", "NW": NW, "K": K, "T": T, "order": list(bad), "mode": mode},
                              f"likelihood table depends on the iteration order of the parallel loop ({list(bad)})")
    # (iii) complete runs
    for key, v in ref["runs"].items():
        for mode in ("nojit", "absent"):
            w = outs[mode]["runs"][key]
            ev += 1
            nontrivial += 1
            if v[0] != w[0] or v[1] != w[1]:
                ctx.violation({"kind": "run", "key": [str(key[0]), list(key[1]) if isinstance(key[1], tuple) else key[1]],
                               "modes": ["jit", mode]},
                              f"complete run {key}: jit returns {v[:2]}, {mode} returns {w[:2]}")
    ctx.cov["evaluations"] = ev
    ctx.cov["distinct_nontrivial"] = nontrivial
    ctx.cov["thread_counts"] = sorted(ref.get("threads", {}).keys())
    ctx.cov["samples"] = [
        {"workload": "labelling", "shapes": sorted({(T, K, kind) for (T, K, kind, _b) in ref["labels"]})[:6],
         "modes": list(MODES)},
        {"workload": "likelihood", "NW": [1, 2, 6, 40], "K": [1, 2, 3], "T": [1, 2, 5, 17], "layouts": ["C", "F", "strided"]},
        {"workload": "runs", "count": len(ref["runs"]), "example": str(next(iter(ref["runs"].items())))[:200]}]
    ctx.cov["exhaustive"] = True
    ctx.cov["rule"] = (
        "three processes (JIT, NUMBA_DISABLE_JIT=1, numba unimportable): (i) labelling kernel on every table over "
        "{0,1,3}^(T*K), T*K<=6 (thorough 8) x 12 betas (identical labels and cost) and over the real alphabet "
        "{0.1,0.7,-1.3,1e-9,1e9} for T*K<=4 (thorough <=6) x 3 betas (identical labels, cost within 1e-12) and over {0,1,nan} / {0,1,inf} for T*K<=4 (identical, NaN == NaN); (ii) "
        "likelihood table for NW in {1,2,6,40} (thorough +100) x K in {1,2,3} x T in {1,2,5,17} (+600 random rows and 601 sample-and-hold rows for two shapes, repeated 6 times free-running per thread count) x layouts {C, Fortran, strided view} "
        "and, for T in {5,17}, int64/int32/float32/byte-swapped float64 stacked data (float64 table within tolerance in every mode) and finite inputs with a non-finite log-density (a 1e200 row, an 8e307 row, a zero precision matrix: same outcome, same non-finite pattern in every mode), all "
        "in every mode and for numba thread counts {1,2,4,8,16}: within 1e-10 x scale of the Cholesky log-density, "
        "bitwise equal across thread counts; interpreted modes with the parallel loop's range replaced by every "
        "permutation (T<=5) / 3 structured orders: bitwise equal; (iii) complete scripted runs for every 4th "
        "(thorough: every) initial labelling of driver k2a, float32/int64/Fortran inputs to the front end and float64/int64/float32 stacked data handed to the main loop directly: same outcome and "
        "labels in all modes. evaluations = pairwise comparisons; non-trivial = comparisons involving a non-default "
        "mode/layout/order")
    ctx.assumptions.append("the interleaving of numba's worker threads inside the compiled loop is not controlled; "
                           "independence of thread count and of iteration order is what is decided")


def replay(ctx, case):
    # a mismatch between modes is re-established by re-running the mode processes
    run(ctx)
