"""C04 - one label per input row; the unlabelled margin is exactly W-1 points.

E1 over the front ends, end to end: N in {1,2,3} x W in 1..6 (odd and even) x
K in {2,3} x three series lengths (single); every tuple of 1..3 (thorough
1..4, 1..6 for the smallest shapes) series with unequal lengths, in every
order (joint).  Scripted-seam harness (contiguous-block initial labelling,
virtual pool) plus a sub-grid on the untouched default path (real mixture
model, real pool).  Oracle on the returned result only.
"""
import itertools
import operator

import numpy as np

from vlib import mainloop as ml
from vlib.ctx import Acc, stopped

LEVEL = "exploration"


def series_for(T, N, j, seed=0):
    """series j of a tuple: regime alternates with j so that labels differ between series"""
    rng = np.random.default_rng(1000 * T + 10 * N + j + 7919 * seed)
    centre = 3.0 * (j % 2)
    return np.round(rng.normal(centre, 0.7, size=(T, N)) + np.arange(N)[None, :] * 0.25, 3)


def build(N, W, K, lengths, joint, seed=0):
    series = [series_for(T, N, j, seed) for j, T in enumerate(lengths)]
    return ml.Driver(f"c04_{N}_{W}_{K}_{'-'.join(map(str, lengths))}{'j' if joint else 's'}", series, W=W, K=K,
                     lam=0.11, beta=1.0, m=1, biased=True, joint=joint)


def block_init(d):
    # contiguous blocks over the whole stacked index space
    return tuple(min(d.K - 1, (i * d.K) // d.Tp) for i in range(d.Tp))


def check_labels(labels, T, W, K):
    front = (W - 1) // 2
    back = (W - 1) - front
    try:
        n = len(labels)
    except TypeError:
        return "labels have no length"
    if n != T:
        return f"{n} labels for a series of {T} rows"
    for i, l in enumerate(labels):
        if isinstance(l, (bool, np.bool_)):
            return f"label {i} is a bool"
        try:
            v = operator.index(l)
        except TypeError:
            return f"label {i} = {l!r} is not an integer"
        margin = i < front or i >= T - back
        if margin and v != -1:
            return f"label {i} = {v} inside the unlabelled margin (first {front}, last {back} of {T} rows, W={W})"
        if not margin and not 0 <= v < K:
            return f"label {i} = {v} is not in [0,{K}) (margin is first {front}, last {back}, W={W})"
    return None


def judge(rec):
    d = rec.driver
    r = rec.result
    NW = d.N * d.W
    mr = r.markov_random_fields
    if len(mr) != d.K:
        return f"{len(mr)} Markov random fields for K={d.K}"
    for k, a in enumerate(mr):
        if np.shape(a) != (NW, NW):
            return f"MRF {k} has shape {np.shape(a)}, expected {(NW, NW)}"
    if r.num_clusters != d.K or r.window_size != d.W:
        return f"result echoes K={r.num_clusters}, W={r.window_size}; asked K={d.K}, W={d.W}"
    if not d.joint:
        return check_labels(r.point_labels, len(d.series[0]), d.W, d.K)
    pl = r.point_labels
    if not isinstance(pl, (list, tuple)) or len(pl) != len(d.series):
        return f"{len(pl) if hasattr(pl, '__len__') else '?'} label lists for {len(d.series)} series"
    for j, (lab, s) in enumerate(zip(pl, d.series)):
        msg = check_labels(lab, len(s), d.W, d.K)
        if msg:
            return f"series {j} (length {len(s)}): {msg}"
    # each list equals its slice of the un-split run
    n, last = ml.final_round(rec)
    if last is not None:
        master = [int(x) for x in last["relabel"]["out"].point_labels]
        front = (d.W - 1) // 2
        pos = 0
        for j, (lab, L) in enumerate(zip(pl, d.lengths)):
            got = [int(x) for x in lab[front:front + L]]
            if got != master[pos:pos + L]:
                return (f"series {j}: returned labels {got} are not the slice [{pos}:{pos + L}] of the joint "
                        f"labelling {master}")
            pos += L
    return None


def work(task):
    from vlib import lib
    lib.load("nojit")
    (N, W, K, tuples, joint, seed) = task
    acc = Acc()
    for lengths in tuples:
        if stopped():
            break
        d = build(N, W, K, lengths, joint, seed)
        rec = ml.real_run(d, block_init(d), 3, (), entry="front")
        acc.n += 1
        case = {"N": N, "W": W, "K": K, "lengths": list(lengths), "joint": joint, "seed": seed, "path": "scripted"}
        if rec.error is not None:
            acc.count("runs_raised", type(rec.error).__name__)
            continue
        acc.count("completed")
        if W > 1 and (len(lengths) > 1 or not joint):
            acc.nontrivial += 1
        msg = judge(rec)
        from vlib.seams import TRACER
        if msg is None and TRACER.init_mismatch:
            msg = (f"the main loop was handed {TRACER.init_mismatch[1]} stacked windows, the series hold "
                   f"{TRACER.init_mismatch[0]} (sum of len - W + 1)")
        if msg:
            acc.fail(case, f"N={N} W={W} K={K} lengths={list(lengths)}: {msg}")
        if not rec.rng_clean:
            acc.fail(case, "global RNG consumed in a scripted run")
    acc.sample({"N": N, "W": W, "K": K, "joint": joint, "tuples": len(tuples), "first": list(tuples[0])})
    return acc.result()


def work_default(task):
    """untouched default path: real GMM initialisation and real pool"""
    from vlib import lib
    lib.load("nojit")
    import fast_ticc
    import random
    (N, W, K, lengths, joint) = task
    acc = Acc()
    d = build(N, W, K, lengths, joint)
    np.random.seed(4242)
    random.seed(4242)
    kw = dict(window_size=W, num_clusters=K, sparsity_weight=0.11, label_switching_cost=1.0, iteration_limit=3,
              min_cluster_size=2, biased_covariance=True)
    acc.n += 1
    case = {"N": N, "W": W, "K": K, "lengths": list(lengths), "joint": joint, "path": "default"}
    try:
        if joint:
            res = fast_ticc.ticc_joint_labels([s.copy() for s in d.series], **kw)
        else:
            res = fast_ticc.ticc_labels(d.series[0].copy(), **kw)
    except Exception as e:
        acc.count("runs_raised", type(e).__name__)
        return acc.result()
    rec = ml.RunRecord()
    rec.driver, rec.result, rec.rounds = d, res, []
    acc.count("completed_default_path")
    acc.nontrivial += 1
    msg = judge(rec)
    if msg:
        acc.fail(case, f"default path N={N} W={W} K={K} lengths={list(lengths)}: {msg}")
    return acc.result()


def work_special(task):
    """(i) fewer rows than sensors; (ii) the SAME array object labelled again with another window size"""
    from vlib import lib
    lib.load("nojit")
    import fast_ticc
    from vlib.seams import TRACER
    acc = Acc()
    for (N, W, T, K) in ((6, 1, 4, 2), (5, 2, 4, 2), (8, 1, 6, 2), (4, 3, 3, 2)):
        d = build(N, W, K, (T,), False)
        rec = ml.real_run(d, block_init(d), 2, (), entry="front")
        acc.n += 1
        acc.nontrivial += 1
        case = {"N": N, "W": W, "K": K, "lengths": [T], "joint": False, "path": "special_wide"}
        if rec.error is not None:
            acc.count("runs_raised", type(rec.error).__name__)
            continue
        msg = judge(rec)
        if msg:
            acc.fail(case, f"fewer rows than sensors (T={T}, N={N}, W={W}): {msg}")
    # hyper-parameters at the edge of what completes: an infinite switching cost (scalar, or one infinite entry of a
    # per-pair vector), a single pass
    for (N, W, T) in ((1, 1, 9), (2, 2, 11), (1, 3, 12)):
        for limit in (1, 2):
            for bk in ("inf", "vec_inf", "huge"):
                d = build(N, W, 2, (T,), False)
                d.beta = {"inf": np.inf, "huge": 1e300,
                          "vec_inf": np.array([np.inf if i == 2 else 1.0 for i in range(d.Tp)])}[bk]
                rec = ml.real_run(d, block_init(d), limit, (), entry="front", deep=False)
                acc.n += 1
                acc.nontrivial += 1
                case = {"N": N, "W": W, "K": 2, "lengths": [T], "joint": False, "path": "special_beta", "beta": bk, "limit": limit}
                if rec.error is not None:
                    acc.count("runs_raised", type(rec.error).__name__)
                    continue
                msg = judge(rec)
                if msg:
                    acc.fail(case, f"label_switching_cost {bk}, iteration_limit {limit} (N={N}, W={W}, T={T}): {msg}")
    # a sensor that never changes (status flag, dead channel) next to varying ones: still N sensors
    for (N, W, T) in ((3, 1, 10), (2, 2, 11), (3, 2, 12)):
        d = build(N, W, 2, (T,), False)
        flat = d.series[0].copy()
        flat[:, 1] = 2.5
        d = ml.Driver(d.name + "_flat", [flat], W=W, K=2, lam=0.11, beta=1.0, m=1, biased=True)
        rec = ml.real_run(d, block_init(d), 2, (), entry="front", deep=False)
        acc.n += 1
        acc.nontrivial += 1
        case = {"N": N, "W": W, "K": 2, "lengths": [T], "joint": False, "path": "special_constant_sensor"}
        if rec.error is not None:
            acc.count("runs_raised", type(rec.error).__name__)
            continue
        msg = judge(rec)
        if msg is None and any(np.shape(a) != (N * W, N * W) for a in rec.result.markov_random_fields):
            msg = f"MRF shapes {[np.shape(a) for a in rec.result.markov_random_fields]}, expected {(N * W, N * W)}"
        if msg:
            acc.fail(case, f"a constant sensor among {N} (W={W}, T={T}): {msg}")
    X = series_for(40, 2, 0)
    TRACER.install()
    TRACER.deep = False
    for W in (3, 2, 1, 2, 4, 3):
        Tp = 40 - W + 1
        TRACER.begin(init_labels=[0 if i < Tp // 2 else 1 for i in range(Tp)], pool_factory="virtual")
        acc.n += 1
        acc.nontrivial += 1
        case = {"N": 2, "W": W, "K": 2, "lengths": [40], "joint": False, "path": "special_same_object"}
        try:
            res = fast_ticc.ticc_labels(X, window_size=W, num_clusters=2, sparsity_weight=0.11, label_switching_cost=1.0,
                                        iteration_limit=2, min_cluster_size=1, biased_covariance=True)
        except Exception as e:
            acc.fail(case, f"the same 40x2 array labelled again with window {W}: raised {type(e).__name__}: {e}")
            continue
        msg = check_labels(res.point_labels, 40, W, 2)
        if msg is None and any(np.shape(a) != (2 * W, 2 * W) for a in res.markov_random_fields):
            msg = f"MRF shapes {[np.shape(a) for a in res.markov_random_fields]}, expected {(2 * W, 2 * W)}"
        if msg is None and TRACER.init_mismatch:
            msg = f"the main loop was handed {TRACER.init_mismatch[1]} stacked windows instead of {Tp}"
        if msg:
            acc.fail(case, f"the same 40x2 array labelled again with window {W} (after other windows): {msg}")
    acc.sample({"path": "special", "wide": [[6, 1, 4], [5, 2, 4], [8, 1, 6], [4, 3, 3]], "same_object_windows": [3, 2, 1, 2, 4, 3]})
    return acc.result()


FORMS = ("float64", "int64", "float32", "bigendian", "fortran", "strided", "readonly", "noncontig_cols")


def in_form(a, form):
    """the same values handed over in another array form (values are multiples of 1/4: exact in every dtype used)"""
    a = np.round(np.asarray(a) * 4) / 4
    if form == "int64":
        return np.round(a * 4).astype(np.int64), 4.0
    if form == "float32":
        return a.astype(np.float32), 1.0
    if form == "bigendian":
        return a.astype(np.dtype(np.float64).newbyteorder()), 1.0
    if form == "fortran":
        return np.asfortranarray(a), 1.0
    if form == "strided":
        big = np.full((2 * a.shape[0], a.shape[1]), -77.0)
        big[::2] = a
        return big[::2], 1.0
    if form == "noncontig_cols":
        big = np.full((a.shape[0], 2 * a.shape[1] + 1), -77.0)
        big[:, 1::2] = a
        return big[:, 1::2], 1.0
    if form == "readonly":
        b = a.copy()
        b.setflags(write=False)
        return b, 1.0
    return a.copy(), 1.0


def work_forms(task):
    """the same series handed over as another dtype / byte order / layout / view: one label per input row all the same"""
    from vlib import lib
    lib.load("nojit")
    import fast_ticc
    from vlib.seams import TRACER
    (N, W, joint) = task
    acc = Acc()
    K = 2
    lengths = (W + 7, W + 5) if joint else (W + 9,)
    base = [series_for(T, N, j) for j, T in enumerate(lengths)]
    Tp = sum(T - W + 1 for T in lengths)
    TRACER.install()
    TRACER.deep = False
    for form in FORMS:
        if stopped():
            break
        data = [in_form(x, form)[0] for x in base]
        keep = [np.array(x, dtype=np.float64) for x in data]
        TRACER.begin(init_labels=[0 if i < Tp // 2 else 1 for i in range(Tp)], pool_factory="virtual")
        acc.n += 1
        acc.nontrivial += 1
        case = {"N": N, "W": W, "K": K, "lengths": list(lengths), "joint": joint, "path": "forms", "form": form}
        kw = dict(window_size=W, num_clusters=K, sparsity_weight=0.11, label_switching_cost=1.0, iteration_limit=2,
                  min_cluster_size=1, biased_covariance=True)
        try:
            res = fast_ticc.ticc_joint_labels(list(data), **kw) if joint else fast_ticc.ticc_labels(data[0], **kw)
        except Exception as e:
            acc.count("runs_raised", form + ":" + type(e).__name__)
            continue
        msg = None
        if joint:
            pl = res.point_labels
            if not isinstance(pl, (list, tuple)) or len(pl) != len(lengths):
                msg = f"{len(pl) if hasattr(pl, '__len__') else '?'} label lists for {len(lengths)} series"
            else:
                for j, T in enumerate(lengths):
                    msg = msg or check_labels(pl[j], T, W, K)
        else:
            msg = check_labels(res.point_labels, lengths[0], W, K)
        if msg is None and any(np.shape(a) != (N * W, N * W) for a in res.markov_random_fields):
            msg = f"MRF shapes {[np.shape(a) for a in res.markov_random_fields]}, expected {(N * W, N * W)}"
        if msg is None and TRACER.init_mismatch:
            msg = f"the main loop was handed {TRACER.init_mismatch[1]} stacked windows instead of {Tp}"
        if msg is None and any(not np.array_equal(np.array(x, dtype=np.float64), k) for x, k in zip(data, keep)):
            msg = "the series was modified"
        if msg:
            acc.fail(case, f"series handed over as {form} ({'joint' if joint else 'single'}, N={N}, W={W}): {msg}")
    acc.sample({"path": "forms", "N": N, "W": W, "joint": joint, "forms": list(FORMS)})
    return acc.result()


def length_tuples(W, nmax):
    alpha = (W + 4, W + 5, W + 8)
    out = []
    for n in range(1, nmax + 1):
        out += list(itertools.product(alpha, repeat=n))
    # a series with exactly W rows (one stacked window) in every position, next to longer ones
    for n in range(2, min(nmax, 3) + 1):
        for pos in range(n):
            out.append(tuple(W if i == pos else W + 5 + i for i in range(n)))
    return out


def run(ctx):
    from vlib import lib
    lib.load("nojit")
    tasks = []
    for N in (1, 2, 3):
        for W in range(1, 7):
            for K in (2, 3):
                tasks.append((N, W, K, [(W + 5,), (W + 6,), (W + 9,)], False, ctx.seed))
                if ctx.thorough:
                    nmax = 6 if N * W <= 2 else (4 if N * W <= 4 else 3)
                else:
                    nmax = 3 if (N * W <= 6 and K == 2) else (2 if N * W <= 8 else 0)
                tl = length_tuples(W, nmax)
                for lo in range(0, len(tl), 20):
                    tasks.append((N, W, K, tl[lo:lo + 20], True, ctx.seed))
    tasks.sort(key=lambda t: -(t[0] * t[1]) ** 2 * len(t[3]))
    for r in ctx.pmap(work, tasks):
        ctx.take(r)
    for r in ctx.pmap(work_special, [None]):
        ctx.take(r)
    for r in ctx.pmap(work_forms, [(N, W, joint) for (N, W) in ((1, 1), (1, 3), (2, 1), (2, 2), (3, 2)) for joint in (False, True)]):
        ctx.take(r)
    dtasks = [(1, 2, 2, (12,), False), (2, 3, 2, (14,), False), (1, 4, 3, (16,), False),
              (1, 2, 2, (9, 12), True), (2, 3, 2, (10, 8, 13), True), (1, 5, 2, (11, 14), True)]
    for r in ctx.pmap(work_default, dtasks, jobs=6):
        ctx.take(r)
    ctx.cov["exhaustive"] = True
    ctx.cov["rule"] = (
        "single: N in {1,2,3} x W in 1..6 x K in {2,3} x T in {W+5,W+6,W+9}; joint: every tuple (every order) of "
        "1..n series with lengths from {W+4,W+5,W+8} (plus tuples with one series of exactly W rows in every position), n = 3 for K=2 and NW<=6, 2 up to NW<=8 (thorough: 6 for "
        "NW<=2, 4 for NW<=4, 3 beyond, both K); scripted contiguous-block initial labelling, virtual pool, limit 3; "
        "plus an infinite / 1e300 switching cost (scalar and one entry of a per-pair vector) with iteration_limit 1 and 2, a constant sensor among varying ones, series with fewer rows than sensors, the same array object labelled six times with different windows, and 6 runs on the untouched default path (real GMM, real pool). Oracle on the result: T labels, margins "
        "exactly floor((W-1)/2) / (W-1)-floor((W-1)/2) of -1, all others integers in [0,K), K MRFs of NW x NW, K "
        "and W echoed, joint: one list per series in input order, each equal to its slice of the joint labelling. "
        "Plus array forms of the same series " + str(list(FORMS)) + " for 5 (N,W) x {single, 2 series}. "
        "Runs that raise are counted, not judged. non-trivial = W>1 and (single or >= 2 series)")


def replay(ctx, case):
    from vlib import lib
    lib.load("nojit")
    if case.get("path") == "forms":
        ctx.take(work_forms((case["N"], case["W"], case["joint"])))
    elif str(case.get("path", "")).startswith("special"):
        ctx.take(work_special(None))
    elif case.get("path") == "default":
        ctx.take(work_default((case["N"], case["W"], case["K"], tuple(case["lengths"]), case["joint"])))
    else:
        ctx.take(work((case["N"], case["W"], case["K"], [tuple(case["lengths"])], case["joint"], case.get("seed", 0))))
