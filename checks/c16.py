"""C16 - the Bayesian information criterion matches its definition.

(a) E1 at function level on synthetic model states: every label sequence of
    length 1..8 over K<=3, MRF entries sitting at 1e-5 / exactly 2e-5 / 3e-5 /
    0 (the > 2e-5 boundary), and a scale family whose determinants leave the
    double range.
(b) E2 monitor: reported BIC vs recomputation from the final model state on
    every enumerated main-loop run.
"""
import itertools
import math

import numpy as np

from vlib import refs
from vlib import mainloop as ml
from vlib import drivers  # noqa: F401
from vlib.ctx import Acc, stopped

LEVEL = "exploration"
MONS = ["C16"]


def small_thetas():
    """3x3 SPD matrices whose off-diagonal magnitudes sit on and around the 2e-5 threshold"""
    out = []
    vals = (0.0, 1e-5, 2e-5, 3e-5, -2e-5, -3e-5, 2.0000000000000003e-05)
    for (a, b, c) in itertools.product(vals, repeat=3):
        t = np.array([[1.0, a, b], [a, 2.0, c], [b, c, 0.5]])
        out.append(t)
    return out


def covs():
    return [np.array([[1.0, 0.2, 0.0], [0.2, 2.0, -0.3], [0.0, -0.3, 0.7]]),
            np.eye(3) * 0.5,
            np.array([[4.0, 1.0, 1.0], [1.0, 3.0, 0.5], [1.0, 0.5, 2.0]])]


# the definition mentions labels, MRFs and covariances only: the options the run was configured with may not matter
ARG_VARIANTS = ("plain", "beta_zero_even", "beta_zero_odd", "beta_0", "biased_matrix", "window3")


def make_model(labels, thetas, Ss, K, eps=0, variant="plain"):
    from fast_ticc.containers import arguments, model_state
    n = thetas[0].shape[0]
    kw = dict(sparsity_weight=0.1, iteration_limit=1, label_switching_cost=1.0,
              min_cluster_size=1, min_meaningful_covariance=eps, num_clusters=K,
              num_processors=1, window_size=1, biased_covariance=False)
    T = len(labels)
    if variant == "beta_zero_even":        # a per-pair cost with exact zeros (what a joint run's mask produces)
        kw["label_switching_cost"] = np.array([0.0 if i % 2 == 0 else 2.0 for i in range(T)])
    elif variant == "beta_zero_odd":
        kw["label_switching_cost"] = np.array([0.0 if i % 2 == 1 else 2.0 for i in range(T)])
    elif variant == "beta_0":
        kw["label_switching_cost"] = 0.0
    elif variant == "biased_matrix":
        kw["biased_covariance"] = True
        kw["sparsity_weight"] = np.full((n, n), 0.1)
    elif variant == "window3" and n % 3 == 0:
        kw["window_size"] = 3
    a = arguments.UserArguments(**kw)
    m = model_state.ModelState.empty_model(a, np.zeros((len(labels), n)))
    m.point_labels = list(labels)
    for c, th, S in zip(m.clusters, thetas, Ss):
        c.train_inverse = th.copy()
        c.empirical_covariance = S.copy()
        c.inverse_covariance = th.copy()
    return m


def judge(labels, thetas, Ss, K, eps=0, variant="plain"):
    from fast_ticc import cluster_metrics
    m = make_model(labels, thetas, Ss, K, eps, variant)
    got = float(cluster_metrics.bayesian_information_criterion(m))
    want, scale = refs.bic(labels, thetas, Ss)
    if not np.isfinite(got):
        return f"BIC is {got!r} although every MRF is positive definite (definition: {want!r})"
    if abs(got - want) > 1e-10 * scale + 1e-12:
        return f"BIC {got!r} != P ln T - 2 sum(ln det - tr) = {want!r}"
    return None


def work_labels(task):
    from vlib import lib
    lib.load("nojit")
    (K, T) = task
    acc = Acc()
    ths = small_thetas()
    Ss = covs()
    for si, labels in enumerate(itertools.product(range(K), repeat=T)):
        if stopped():
            break
        # rotate through the threshold family so that every theta is used
        thetas = [ths[(si * 7 + 13 * k) % len(ths)] for k in range(K)]
        runs = 1 + sum(1 for i in range(1, T) if labels[i] != labels[i - 1])
        for variant in ("plain", "beta_zero_even", "beta_zero_odd", ARG_VARIANTS[3 + si % 3]):
            acc.n += 1
            msg = judge(labels, thetas, Ss[:K], K, 0, variant)
            if runs > 1 and len(set(labels)) < K or runs > len(set(labels)):
                acc.nontrivial += 1
            if msg:
                acc.fail({"kind": "labels", "K": K, "labels": list(labels), "variant": variant,
                          "theta_idx": [(si * 7 + 13 * k) % len(ths) for k in range(K)]},
                         (f"with the '{variant}' options in the arguments: " if variant != "plain" else "") + msg)
    acc.sample({"kind": "labels", "K": K, "T": T})
    return acc.result()


def work_threshold(task):
    from vlib import lib
    lib.load("nojit")
    acc = Acc()
    ths = small_thetas()
    Ss = covs()
    (lo, hi) = task
    for i in range(lo, hi):
        for labels in ((0, 1, 0, 0, 1), (1, 1, 1), (0,), (1, 0)):
            acc.n += 1
            acc.nontrivial += 1
            thetas = [ths[i], ths[(i * 5 + 3) % len(ths)]]
            # the definition does not mention the covariance floor the run was configured with
            for eps in (0, 1e-9, 1e-3):
                msg = judge(labels, thetas, Ss[:2], 2, eps)
                if msg:
                    acc.fail({"kind": "threshold", "i": i, "labels": list(labels), "eps": eps},
                             (f"with min_meaningful_covariance={eps} in the arguments: " if eps else "") + msg)
    acc.sample({"kind": "threshold", "theta": ths[lo].tolist()})
    return acc.result()


def work_scalar(task):
    """one sensor, window 1: 1x1 MRFs and 0-d covariances (what np.cov returns for one column), K = 2, 3"""
    from vlib import lib
    lib.load("nojit")
    (K,) = task
    acc = Acc()
    tvals = (0.5, 2.0, 1e-5, 3e-5, 7.0)
    svals = (0.3, 1.7, 40.0)
    for T in range(1, 6):
        for si, labels in enumerate(itertools.product(range(K), repeat=T)):
            thetas = [np.array([[tvals[(si + 2 * k) % len(tvals)]]]) for k in range(K)]
            for form in ("0d", "1x1"):
                Ss = [np.array(svals[(si + k) % len(svals)]) if form == "0d" else np.array([[svals[(si + k) % len(svals)]]])
                      for k in range(K)]
                acc.n += 1
                acc.nontrivial += 1
                msg = judge(labels, thetas, Ss, K)
                if msg:
                    acc.fail({"kind": "scalar", "K": K, "labels": list(labels), "form": form},
                             f"one sensor, window 1, covariances stored as {form} arrays: " + msg)
                    return acc.result()
    acc.sample({"kind": "scalar", "K": K})
    return acc.result()


def work_scale(task):
    from vlib import lib
    lib.load("nojit")
    from checks.c05 import thetas_for
    (n,) = task
    acc = Acc()
    variants = thetas_for(n)
    rng = np.random.default_rng(5 + n)
    A = rng.normal(size=(n, n))
    S = A @ A.T / n + np.eye(n)
    for i in range(len(variants)):
        thetas = [variants[i][1], variants[(i + 3) % len(variants)][1]]
        for labels in ((0, 0, 1, 1, 0), (1, 1, 1, 1)):
            acc.n += 1
            if any(abs(refs.chol_logdet(t)[0]) > 745 for t in thetas):
                acc.nontrivial += 1
            msg = judge(labels, thetas, [S, S * 0.5], 2)
            if msg:
                acc.fail({"kind": "scale", "NW": n, "i": i, "labels": list(labels),
                          "thetas": [variants[i][0], variants[(i + 3) % len(variants)][0]]}, f"NW={n}: " + msg)
    acc.sample({"kind": "scale", "NW": n, "variants": [v[0] for v in variants][:5]})
    return acc.result()


def run(ctx):
    from vlib import lib
    lib.load("nojit")
    tasks = [(K, T) for K in (1, 2, 3) for T in range(1, 9)]
    tasks.sort(key=lambda t: -t[0] ** t[1])
    for r in ctx.pmap(work_labels, tasks):
        ctx.take(r)
    nth = len(small_thetas())
    for r in ctx.pmap(work_threshold, [(i, min(nth, i + 25)) for i in range(0, nth, 25)]):
        ctx.take(r)
    for r in ctx.pmap(work_scalar, [(2,), (3,)]):
        ctx.take(r)
    for r in ctx.pmap(work_scale, [(n,) for n in ((5, 50, 100, 200) if ctx.thorough else (5, 50, 100))]):
        ctx.take(r)
    L = 20
    menu = [("k2a", [L], 1), ("k2m1", [L], 0), ("k2big", [1, L], 0), ("k2vec", [L], 0), ("k2w1", [L], 0)]
    if ctx.thorough:
        menu += [("k2b", [L], 1), ("k3a", [L], 1), ("k2mat", [L], 0), ("k2eps", [L], 0)]
    ps = ml.e2_plans(ctx, menu, MONS, conform=False)
    ps += ml.e2_plans(ctx, [("long6k", [3], 0)], MONS, conform=False, inits=drivers.long_inits)
    # the loop's control skeleton (scripted relabel outputs, see C09): final states whose labels differ from the
    # labels last fitted, incl. an emptied or singleton cluster, for every label sequence up to length 3
    from checks.c09 import work_skeleton, SK_ALPHA
    for r in ctx.pmap(work_skeleton, [(limit, [f], ("first",), ['C16']) for limit in (1, 2, 3) for f in sorted(SK_ALPHA)]):
        ctx.take(r)
    ml.explore(ctx, ps)
    ctx.cov["exhaustive"] = True
    ctx.cov["rule"] = (
        "(a) every label sequence of length 1..8 over K in {1,2,3} (9840 sequences; unused clusters, single runs, "
        "many runs) with 3x3 MRFs from a family whose off-diagonal magnitudes are {0,1e-5,2e-5,nextafter(2e-5),3e-5} "
        "with both signs (343 matrices, each also checked on 4 fixed sequences); every sequence with the run's options "
        "plain, with a per-pair switching cost holding exact zeros at the even / odd pairs, and one of {beta 0, biased + "
        "matrix weight, window 3} (the definition mentions none of them); 1x1 MRFs with 0-d / 1x1 covariances for K in {2,3} and every label sequence up to length 5; scale family NW in {5,50,100} with "
        "log det in {-3000..3000}; oracle P ln T - 2 sum_k(ln det - tr(Theta S)) with Cholesky log-determinant and an "
        "explicit run-length scan, tolerance 1e-10 x sum|terms|, must be finite. (b) every enumerated main-loop run: "
        "reported BIC vs recomputation from the final model state. non-trivial = sequences where some cluster "
        "contributes more than one run or is unused; matrices on the threshold; |log det| > 745")
    ctx.cov["rule"] += (" Plus control-skeleton runs: the main loop with the relabel phase's output scripted, every label "
                        "sequence over 5 labellings up to length 3 (final labels that differ from the labels last fitted, "
                        "emptied and singleton clusters).")


def replay(ctx, case):
    if case.get("kind") == "skeleton":
        from vlib import lib
        lib.load("nojit")
        from checks.c09 import work_skeleton
        ctx.take(work_skeleton((case["limit"], [case["sequence"][0]], (case["draw"],), case.get("monitors", ['C16']))))
        return
    from vlib import lib
    lib.load("nojit")
    k = case.get("kind")
    if k == "labels":
        ths = small_thetas()
        K = case["K"]
        msg = judge(tuple(case["labels"]), [ths[i] for i in case["theta_idx"]], covs()[:K], K, 0, case.get("variant", "plain"))
        ctx.cov["evaluations"] = 1
        if msg:
            ctx.violation(case, msg)
    elif k == "scalar":
        ctx.take(work_scalar((case["K"],)))
    elif k == "threshold":
        ctx.take(work_threshold((case["i"], case["i"] + 1)))
    elif k == "scale":
        ctx.take(work_scale((case["NW"],)))
    else:
        ml.replay_case(ctx, case, MONS, conform=False)
