"""C09 - main loop: bounded, stops only at a fixed point, returns what it scored.

E2: explicit-state model of the main loop (transition table built by the real
phase functions on brand-new states) + conformance replay of EVERY model trace
against the real fit_stacked_data under scripted seams: every initial
labelling (K^T'), every iteration limit in the menu, every donor draw within
the deviation bound.
"""
from vlib import mainloop as ml
from vlib import drivers  # noqa: F401  (registers the drivers)

LEVEL = "model_checking"
MONS = ["C09"]


def plans(ctx):
    L = 20
    if ctx.thorough:
        # (driver, limits, donor-deviation bound, subset cap)
        menu = [("k2a", [1, 2, 3, L], 1, 64), ("k2a", [L], 2, 10), ("k2b", [1, 2, L], 1, 10), ("k2m1", [1, 2, 3, L], 1, 64),
                ("k2m1", [L], 2, 10), ("k2vec", [1, 2, L], 1, 64), ("k2mat", [1, L], 1, 10), ("k2w3", [2, L], 1, 10),
                ("k3a", [1, 2, L], 1, 10), ("k3b", [L], 0, 10), ("k2seed", [1, 2, L], 1, 64), ("k2big", [1, 2, L], 1, 10),
                ("k2eps2", [L], 1, 10), ("k2e5", [L], 1, 10), ("k2one", [3, L], 1, 10), ("k2tiny", [L], 0, 10),
                ("k2lowvar", [L], 0, 10)]
    else:
        menu = [("k2a", [1, 2, 3, L], 1, 10), ("k2m1", [1, 2, L], 1, 10), ("k2vec", [2, L], 1, 10),
                ("k2seed", [1, L], 1, 10), ("k3a", [L], 0, 10), ("k2tiny", [L], 0, 10), ("k2lowvar", [L], 0, 10)]
    out = []
    for (name, limits, bound, cap) in menu:
        d = ml.get_driver(name, ctx.seed)
        inits = ml.all_labellings(d.Tp, d.K)
        if name in ("k2tiny", "k2lowvar") and not ctx.thorough:
            inits = inits[::2]
        out.append(dict(driver=name, seed=ctx.seed, inits=inits, limits=limits,
                        bound=bound, entry="fit", monitors=MONS, conform=True, subset_cap=cap))
    return out


# ---------------------------------------------------------------- control skeleton over scripted relabel outputs
SK_ALPHA = {"A": [0, 0, 0, 0, 1, 1, 1, 1], "B": [0, 0, 0, 1, 1, 1, 1, 1], "E": [0] * 8,
            "S": [0] * 7 + [1], "F": [1, 1, 0, 0, 0, 0, 0, 0]}
SK_INIT = (0, 0, 1, 1, 0, 0, 1, 1)


@ml.driver("skel")
def _skel(seed):
    return ml.Driver("skel", [ml.two_regime_series(9, 1, 3)], W=2, K=2, beta=1.0, m=2, biased=True)


@ml.driver("skel_nodonor")
def _skel_nd(seed):
    # min_cluster_size 5 with 8 windows: nobody ever holds 2m points, an emptied cluster cannot be refilled
    return ml.Driver("skel_nodonor", [ml.two_regime_series(9, 1, 3)], W=2, K=2, beta=1.0, m=5, biased=True)


def work_skeleton(task):
    """The relabel phase's OUTPUT is an environment answer here: the real phase runs, then its labelling is
    replaced by the next scripted one.  Every sequence over a 5-labelling alphabet (balanced, shifted, one
    cluster empty, singleton, other balanced) up to the iteration limit is run through the real main loop, so
    the loop's decisions (when to stop, when to repopulate, what to return) are explored exhaustively and
    independently of what the data would make the relabel phase produce."""
    from vlib import lib
    from vlib.ctx import Acc, stopped
    import itertools
    lib.load("nojit")
    from checks.c03 import memoise_solver
    memoise_solver()
    (limit, firsts, draws) = task[:3]
    monitors = task[3] if len(task) > 3 else ["C09"]
    acc = Acc()
    d = ml.get_driver(task[4] if len(task) > 4 else "skel", 0)
    names = sorted(SK_ALPHA)
    for first in firsts:
        for rest in itertools.product(names, repeat=limit - 1):
            if stopped():
                return acc.result()
            seq = (first,) + rest
            script = [SK_ALPHA[x] for x in seq] + [SK_ALPHA[seq[-1]]] * 2     # lets an over-running loop run on
            for draw in draws:
                from vlib.seams import TRACER
                TRACER.sampler.default_mode = draw
                try:
                    rec = ml.real_run(d, SK_INIT, limit, (), entry="fit", relabel_script=script)
                finally:
                    TRACER.sampler.default_mode = "first"
                acc.n += 1
                case = {"kind": "skeleton", "limit": limit, "sequence": list(seq), "draw": draw, "driver": d.name}
                if rec.error is not None:
                    acc.count("skeleton_raised", type(rec.error).__name__)
                    continue
                if d.name == "skel_nodonor":
                    # a run that got past an emptied / singleton cluster without a possible donor
                    outs = [seq[i] for i in range(min(len(rec.rounds), limit) - 1)]
                    if any(o in ("E", "S") for o in outs):
                        acc.fail(case, f"relabel outputs {list(seq)}, limit {limit}, min_cluster_size 5: the run went on "
                                       f"past a cluster with < 2 windows although no cluster holds 2m windows")
                n, _ = ml.final_round(rec)
                acc.count("skeleton_rounds", n)
                if len(set(seq)) > 1:
                    acc.nontrivial += 1
                # reference loop on the scripted outputs
                want = limit
                for r in range(1, limit):
                    if seq[r] == seq[r - 1]:
                        want = r + 1
                        break
                for mname in monitors:
                    for (msg, sig) in ml.MONITORS[mname](rec):
                        if sig == "skip":
                            acc.count("monitor_skips", msg.strip("_"))
                            continue
                        acc.fail(dict(case, monitors=list(monitors)), f"relabel outputs {list(seq)}, limit {limit}: " + msg, sig)
                got = tuple(ml.stacked_labels(rec))
                if n <= limit and n >= 1 and got != tuple(SK_ALPHA[seq[n - 1]]):
                    acc.fail(case, f"relabel outputs {list(seq)}, limit {limit}: returned labels {got} are not round {n}'s output")
                if n > want:
                    acc.count("skeleton_ran_past_fixed_point")      # allowed by the statement, reported only
    acc.sample({"kind": "skeleton", "limit": limit, "first": list(firsts), "alphabet": SK_ALPHA})
    return acc.result()


def work_long_skeleton(task):
    """the control skeleton on 24000 stacked points: consecutive scripted labellings that differ in ONE label
    (then in two, then not at all) - a loop that measures change as a rounded fraction stops too early here"""
    from vlib import lib
    from vlib.ctx import Acc
    lib.load("nojit")
    (limit,) = task
    acc = Acc()
    d = ml.get_driver("long24k", 0)
    base = [0 if i < d.Tp // 2 else 1 for i in range(d.Tp)]
    outs = []
    cur = list(base)
    for r in range(limit):
        if r < limit - 1:
            cur = list(cur)
            cur[d.Tp // 2 + 7 * (r + 1)] = 0            # one more label changes in every round but the last
        outs.append(list(cur))
    script = outs + [outs[-1]] * 2
    shifted = [0 if i < d.Tp // 2 - 5 else 1 for i in range(d.Tp)]
    rec = ml.real_run(d, tuple(shifted), limit, (), entry="fit", relabel_script=script, deep=False)
    acc.n += 1
    acc.nontrivial += 1
    case = {"kind": "long_skeleton", "limit": limit}
    if rec.error is not None:
        acc.fail(case, f"24000-point skeleton raised {type(rec.error).__name__}: {rec.error}")
        return acc.result()
    n, _ = ml.final_round(rec)
    # rounds r and r-1 differ for r < limit-1; the last two scripted outputs are equal: the run may stop only at `limit`
    if n != limit:
        acc.fail(case, f"24000 stacked points, relabel outputs differing in one label per round (identical only in rounds "
                       f"{limit - 1} and {limit}), limit {limit}: stopped after {n} rounds")
    got = tuple(ml.stacked_labels(rec))
    if n >= 1 and n <= limit and got != tuple(outs[n - 1]):
        acc.fail(case, f"24000-point skeleton: returned labels are not round {n}'s output")
    return acc.result()


def run(ctx):
    from vlib import lib
    lib.load("nojit")
    top = 6 if ctx.thorough else 4
    sk = [(limit, [f], ("first", "last")) for limit in range(1, top + 1) for f in sorted(SK_ALPHA)]
    sk += [(limit, [f], ("first",), ["C09"], "skel_nodonor") for limit in (2, 3) for f in sorted(SK_ALPHA)]
    for r in ctx.pmap(work_skeleton, sk):
        ctx.take(r)
    for r in ctx.pmap(work_long_skeleton, [(3,), (5,)]):
        ctx.take(r)
    ps = plans(ctx)
    ml.explore(ctx, ps)
    ctx.cov["drivers"] = [ml.get_driver(p["driver"], ctx.seed).describe() | {"limits": p["limits"],
                          "donor_deviation_bound": p["bound"], "subset_cap": p["subset_cap"], "initial_labellings": len(p["inits"])} for p in ps]
    ctx.cov["exhaustive"] = True
    ctx.cov["rule"] = (
        "control skeleton: the relabel phase's output replaced by a scripted labelling - every sequence over "
        "{balanced, shifted, one cluster empty, singleton, other balanced} of length = iteration limit 1.." + str(top) +
        " x donor draw {first, last} through the real main loop (stop rule, repopulation timing, what is returned); the same on 24000 stacked points "
        "with scripted outputs that differ in exactly one label per round (limits 3 and 5); "
        "evaluations = complete real runs of fit_stacked_data (every initial labelling x limit x donor "
        "script with at most `donor_deviation_bound` non-default draws; all C(n,m) subsets per draw when "
        "<= subset_cap, else first/last/alternating m); states = distinct (labelling, donor-ranking spreads) reached; transitions = applications "
        "of the fresh-state transition function; distinct_nontrivial = runs that completed with >= 2 rounds")
    ctx.assumptions += [
        "the initial labelling, the donor draw and the pool are the only environment answers (checked: "
        "both global RNG states are bit-identical before and after every scripted run)",
        "a run's future depends only on (labelling, donor spreads, round>0): checked by the fresh-state differential itself",
    ]


def replay(ctx, case):
    if case.get("kind") == "long_skeleton":
        ctx.take(work_long_skeleton((case["limit"],)))
        return
    if case.get("kind") == "skeleton":
        from vlib import lib
        lib.load("nojit")
        ctx.take(work_skeleton((case["limit"], [case["sequence"][0]], (case["draw"],), case.get("monitors", ["C09"]),
                                case.get("driver", "skel"))))
        return
    ml.replay_case(ctx, case, MONS, conform=True)
