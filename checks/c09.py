"""C09 - main loop: bounded, stops only at a fixed point, returns what it scored.

E2: explicit-state model of the main loop (transition table built by the real
phase functions on brand-new states) + conformance replay of EVERY model trace
against the real fit_stacked_data under scripted seams: every initial
labelling (K^T'), every iteration limit in the menu, every donor draw within
the deviation bound.
"""
from vlib import mainloop as ml
from vlib import drivers  # noqa: F401  (registers the drivers)

LEVEL = "model_checking"
MONS = ["C09"]


def plans(ctx):
    L = 20
    if ctx.thorough:
        # (driver, limits, donor-deviation bound, subset cap)
        menu = [("k2a", [1, 2, 3, L], 1, 64), ("k2a", [L], 2, 10), ("k2b", [1, 2, L], 1, 10), ("k2m1", [1, 2, 3, L], 1, 64),
                ("k2m1", [L], 2, 10), ("k2vec", [1, 2, L], 1, 64), ("k2mat", [1, L], 1, 10), ("k2w3", [2, L], 1, 10),
                ("k3a", [1, 2, L], 1, 10), ("k3b", [L], 0, 10), ("k2seed", [1, 2, L], 1, 64), ("k2big", [1, 2, L], 1, 10),
                ("k2eps2", [L], 1, 10), ("k2e5", [L], 1, 10)]
    else:
        menu = [("k2a", [1, 2, 3, L], 1, 10), ("k2m1", [1, 2, L], 1, 10), ("k2vec", [2, L], 1, 10),
                ("k2seed", [1, L], 1, 10), ("k3a", [L], 0, 10)]
    out = []
    for (name, limits, bound, cap) in menu:
        d = ml.get_driver(name, ctx.seed)
        out.append(dict(driver=name, seed=ctx.seed, inits=ml.all_labellings(d.Tp, d.K), limits=limits,
                        bound=bound, entry="fit", monitors=MONS, conform=True, subset_cap=cap))
    return out


def run(ctx):
    from vlib import lib
    lib.load("nojit")
    ps = plans(ctx)
    ml.explore(ctx, ps)
    ctx.cov["drivers"] = [ml.get_driver(p["driver"], ctx.seed).describe() | {"limits": p["limits"],
                          "donor_deviation_bound": p["bound"], "subset_cap": p["subset_cap"], "initial_labellings": len(p["inits"])} for p in ps]
    ctx.cov["exhaustive"] = True
    ctx.cov["rule"] = (
        "evaluations = complete real runs of fit_stacked_data (every initial labelling x limit x donor "
        "script with at most `donor_deviation_bound` non-default draws; all C(n,m) subsets per draw when "
        "<= subset_cap, else first/last/alternating m); states = distinct (labelling, donor-ranking spreads) reached; transitions = applications "
        "of the fresh-state transition function; distinct_nontrivial = runs that completed with >= 2 rounds")
    ctx.assumptions += [
        "the initial labelling, the donor draw and the pool are the only environment answers (checked: "
        "both global RNG states are bit-identical before and after every scripted run)",
        "a run's future depends only on (labelling, donor spreads, round>0): checked by the fresh-state differential itself",
    ]


def replay(ctx, case):
    ml.replay_case(ctx, case, MONS, conform=True)
