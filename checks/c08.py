"""C08 - cluster repopulation conserves points and never starves a donor.

(a) E1: single application over every cluster-size vector in {0..3m+2}^K
    (K<=5), every strict ordering of spreads + all-equal, sorted and
    interleaved layouts, every donor draw (all m-subsets when few).
(b) histories: repeated application (output fed back, depth 3) and every
    repopulation event inside main-loop runs is covered by C09/C13's E2 runs.
"""
import itertools
import math

import numpy as np

from vlib import refs, seams
from vlib.ctx import Acc, stopped
from vlib.mainloop import partition_violation

LEVEL = "exploration"


def spread_matrix(k, s, shaped):
    """a covariance whose overall magnitude (Frobenius norm, what the library documents as 'spread') is s.
    shaped: alternate 'round' (s/2 * I_4, spectral norm s/2) and 'thin' (diag(s,0,0,0), spectral norm s)
    matrices, so that any other matrix norm ranks the clusters differently"""
    if not shaped:
        return np.array([[float(s), 0.0], [0.0, float(s)]]) / np.sqrt(2.0)
    if k % 2 == 0:
        return np.eye(4) * (float(s) / 2.0)
    m = np.zeros((4, 4))
    m[0, 0] = float(s)
    return m


def build(sizes, m, spreads, layout, shaped=False):
    from fast_ticc.containers import arguments, model_state
    K = len(sizes)
    labels = []
    for k, n in enumerate(sizes):
        labels += [k] * n
    if layout == "interleaved":
        labels = [l for pair in itertools.zip_longest(labels[::2], labels[1::2][::-1]) for l in pair if l is not None]
    a = arguments.UserArguments(sparsity_weight=0.1, iteration_limit=1, label_switching_cost=0,
                                min_cluster_size=m, min_meaningful_covariance=0, num_clusters=K,
                                num_processors=1, window_size=1, biased_covariance=False)
    st = model_state.ModelState.empty_model(a, np.zeros((len(labels), 1)))
    st.point_labels = list(labels)
    for k, (c, s) in enumerate(zip(st.clusters, spreads)):
        c.computed_covariance = spread_matrix(k, s, shaped)
    return st, labels


def judge(sizes, m, spreads, layout, draw, repeat=1, respread=False, shaped=False):
    """returns (message or None, outcome tag)"""
    from fast_ticc import cluster_maintenance as cm
    sampler = cm.random
    K = len(sizes)
    st, labels = build(sizes, m, spreads, layout, shaped)
    cur_labels = list(labels)
    cur = st
    tag = None
    spreads0 = tuple(spreads)
    for step in range(repeat):
        if respread and step > 0:
            # the optimisation phase of the next round refits every cluster: new spreads arrive the way the
            # library itself installs them (shallow copy of the cluster + assignment)
            spreads = tuple(reversed(spreads0)) if step % 2 else spreads0
            nxt = cur.shallow_copy()
            fresh = []
            for c, sp in zip(cur.clusters, spreads):
                c2 = c.shallow_copy()
                c2.computed_covariance = spread_matrix(len(fresh), sp, shaped)
                fresh.append(c2)
            nxt.clusters = fresh
            cur = nxt
        sizes_now = [cur_labels.count(k) for k in range(K)]
        before = seams.snapshot_parts(cur)
        sampler.reset(())
        sampler.default_mode = draw if isinstance(draw, str) else "first"
        if not isinstance(draw, str):
            sampler.script = [tuple(draw)] * 0     # explicit subset handled below
        exp = refs.repopulate_reference(sizes_now, m, spreads)
        if not isinstance(draw, str):
            # explicit m-subset for the first refill, default afterwards
            sampler.script = [tuple(draw)]
        try:
            out = cm.repopulate_empty_clusters(cur)
            err = None
        except RuntimeError as e:
            out, err = None, e
        except seams.HarnessError as e:
            sampler.script = []
            return f"step {step}: donor draw does not take exactly m={m} of the donor's points: {e}", tag
        except Exception as e:
            # neither a result nor the donor-shortage error (e.g. a draw of m points asked of a donor holding fewer)
            sampler.script = []
            return (f"step {step}: sizes {sizes_now}, m={m}, spreads {spreads}: raised {type(e).__name__}: {e} "
                    f"(neither a result nor the donor-shortage RuntimeError)"), tag
        finally:
            sampler.default_mode = "first"
        leftover = list(sampler.script)
        sampler.script = []
        changed = seams.describe_state_diff(cur, before)
        if changed:
            return f"step {step}: the caller's model state was modified: {changed[:4]}", tag
        if exp[0] == "error":
            if err is None:
                return (f"step {step}: sizes {sizes_now}, m={m}: no donor can spare {m} points for every needy "
                        f"cluster, yet no error was raised (result sizes "
                        f"{[list(out.point_labels).count(k) for k in range(K)]})"), tag
            msg = str(err).lower()
            if "donor" not in msg:
                return f"step {step}: error does not name the donor shortage: {err}", tag
            return None, tag or "error"
        if err is not None:
            return f"step {step}: sizes {sizes_now}, m={m}, spreads {spreads}: unexpected error {err}", tag
        new = [int(x) for x in out.point_labels]
        if len(new) != len(cur_labels) or any(not 0 <= l < K for l in new):
            return f"step {step}: a point lost its label or got one outside [0,{K})", tag
        ns = [new.count(k) for k in range(K)]
        if exp[0] == "same":
            if new != cur_labels:
                return f"step {step}: labels changed although no cluster had fewer than 2 points", tag
            if leftover == [] and not isinstance(draw, str):
                return "donor draw consulted although nothing to repopulate", tag
            tag = tag or "same"
        else:
            needy = [k for k, n in enumerate(sizes_now) if n < 2]
            moved = [(a, b) for a, b in zip(cur_labels, new) if a != b]
            for (a, b) in moved:
                if b not in needy:
                    return f"step {step}: a point moved into cluster {b}, which was not under-populated", tag
                if sizes_now[a] < 2 * m:
                    return (f"step {step}: cluster {a} gave points away with only {sizes_now[a]} < 2m={2 * m} "
                            f"points (sizes {sizes_now})"), tag
            for k in needy:
                if ns[k] < m:
                    return f"step {step}: needy cluster {k} has {ns[k]} < m={m} points afterwards", tag
            donors = sorted(set(a for a, _ in moved))
            for dnr in donors:
                if ns[dnr] < m:
                    return f"step {step}: donor {dnr} keeps only {ns[dnr]} < m={m} points", tag
            if len(moved) != m * len(needy):
                return f"step {step}: {len(moved)} points moved for {len(needy)} refills of m={m}", tag
            distinct = len(set(spreads[k] for k in range(K))) == K
            if distinct:
                if ns != exp[1]:
                    return (f"step {step}: sizes {sizes_now} spreads {spreads} m={m}: result sizes {ns}, donors in "
                            f"order of decreasing spread give {exp[1]}"), tag
            else:
                if sorted(ns) != sorted(exp[1]) and sum(ns) != sum(exp[1]):
                    return f"step {step}: result sizes {ns} vs reference {exp[1]}", tag
            for k in range(K):
                if k not in needy and k not in donors:
                    if [i for i, l in enumerate(new) if l == k] != [i for i, l in enumerate(cur_labels) if l == k]:
                        return f"step {step}: bystander cluster {k} was touched", tag
            tag = tag or "repopulated"
        pv = partition_violation(out, K, len(new))
        if pv:
            return f"step {step}: output state: {pv}", tag
        cur, cur_labels = out, new
        if step + 1 < repeat:
            # feed the output back: give the refreshed state the same spreads
            for k_, (c, s) in enumerate(zip(cur.clusters, spreads)):
                if c.computed_covariance is None or np.ndim(c.computed_covariance) != 2:
                    c.computed_covariance = spread_matrix(k_, s, shaped)
    return None, tag


def work(task):
    from vlib import lib
    lib.load("nojit")
    from fast_ticc import cluster_maintenance as cm
    if not isinstance(cm.random, seams.ScriptedRandom):
        cm.random = seams.ScriptedRandom()
    acc = Acc()
    (K, m, first_sizes) = task
    top = 3 * m + 2
    for rest in itertools.product(range(top + 1), repeat=K - 1):
        if stopped():
            break
        sizes = (first_sizes,) + rest
        if sum(sizes) == 0:
            continue
        spread_menu = list(itertools.permutations(range(1, K + 1))) + [tuple([1] * K)]
        for spreads in spread_menu:
            for layout in ("sorted", "interleaved"):
                draws = ["first", "last"]
                needy = [k for k, n in enumerate(sizes) if n < 2]
                if needy and layout == "sorted" and spreads == spread_menu[0]:
                    # every m-subset of the first donor's members when few
                    exp = refs.repopulate_reference(list(sizes), m, spreads)
                    if exp[0] == "ok":
                        elig = [j for j, n in enumerate(sizes) if n >= 2 * m and j not in needy]
                        d0 = max(elig, key=lambda j: spreads[j])
                        if math.comb(sizes[d0], m) <= 20:
                            draws = draws + [c for c in itertools.combinations(range(sizes[d0]), m)]
                for draw in draws:
                    if draw == "last" and layout == "sorted" and K >= 3:
                        # same case with covariance matrices of different shapes
                        acc.n += 1
                        msg, tag = judge(sizes, m, spreads, layout, "first", shaped=True)
                        if msg:
                            acc.fail({"sizes": list(sizes), "m": m, "spreads": list(spreads), "layout": layout,
                                      "draw": "first", "repeat": 1, "shaped": True},
                                     "covariances of different shapes (round / thin): " + msg)
                    acc.n += 1
                    msg, tag = judge(sizes, m, spreads, layout, draw)
                    acc.count("outcome", str(tag))
                    if tag == "repopulated" or tag == "error":
                        acc.nontrivial += 1
                    if msg:
                        acc.fail({"sizes": list(sizes), "m": m, "spreads": list(spreads), "layout": layout,
                                  "draw": draw if isinstance(draw, str) else list(draw), "repeat": 1}, msg)
        # histories: output fed back (depth 3), default draws
        if sum(sizes) <= 2 * top:
            for spreads in (tuple(range(1, K + 1)), tuple(range(K, 0, -1))):
                for respread in (False, True):
                    acc.n += 1
                    msg, tag = judge(sizes, m, spreads, "sorted", "first", repeat=3, respread=respread)
                    acc.count("history_outcome", str(tag))
                    if msg:
                        acc.fail({"sizes": list(sizes), "m": m, "spreads": list(spreads), "layout": "sorted",
                                  "draw": "first", "repeat": 3, "respread": respread},
                                 ("spreads re-ranked between applications: " if respread else "") + msg)
    acc.sample({"K": K, "m": m, "sizes_first": first_sizes, "size_alphabet": [0, top]})
    return acc.result()


LARGE = [((300, 0), (2, 100, 150, 151)),
         ((70000, 1, 0), (2, 257, 17500, 17501, 35000)),
         ((66000, 66000, 0, 1), (256, 4096, 16500, 33000, 33001)),
         ((40, 0, 1, 0, 1, 0, 30), (3, 5, 6, 10)),
         ((4097, 4096, 0, 0, 1, 1), (2, 1024, 1025))]


def work_large(task):
    """sizes, cluster counts and refill sizes beyond the exhaustive grid (8/12/16-bit widths, K = 6, 7)"""
    from vlib import lib
    lib.load("nojit")
    from fast_ticc import cluster_maintenance as cm
    if not isinstance(cm.random, seams.ScriptedRandom):
        cm.random = seams.ScriptedRandom()
    acc = Acc()
    (sizes, m) = task
    K = len(sizes)
    for spreads in (tuple(range(1, K + 1)), tuple(range(K, 0, -1)), tuple((3 * i) % K + 1 for i in range(K)) if K % 3 else tuple(range(1, K + 1))):
        for layout in ("sorted", "interleaved"):
            for draw in ("first", "last"):
                acc.n += 1
                msg, tag = judge(sizes, m, spreads, layout, draw, repeat=2 if sum(sizes) < 1000 else 1)
                acc.count("large_outcome", str(tag))
                if tag in ("repopulated", "error"):
                    acc.nontrivial += 1
                if msg:
                    acc.fail({"sizes": list(sizes), "m": m, "spreads": list(spreads), "layout": layout,
                              "draw": draw, "repeat": 2 if sum(sizes) < 1000 else 1}, msg[:400])
    return acc.result()


def grid(ctx):
    if ctx.thorough:
        km = [(2, 1), (2, 2), (2, 3), (3, 1), (3, 2), (3, 3), (4, 1), (4, 2), (5, 1)]
    else:
        km = [(2, 1), (2, 2), (2, 3), (3, 1), (3, 2), (4, 1)]
    tasks = []
    for (K, m) in km:
        for first in range(3 * m + 3):
            tasks.append((K, m, first))
    tasks.sort(key=lambda t: -((3 * t[1] + 3) ** (t[0] - 1)) * math.factorial(t[0]))
    return tasks, km


def run(ctx):
    from vlib import lib
    lib.load("nojit")
    tasks, km = grid(ctx)
    for r in ctx.pmap(work, tasks):
        ctx.take(r)
    for r in ctx.pmap(work_large, [(sz, m) for (sz, ms) in LARGE for m in ms]):
        ctx.take(r)
    ctx.cov["exhaustive"] = True
    ctx.cov["grid_K_m"] = [list(x) for x in km]
    ctx.cov["rule"] = (
        "every size vector in {0..3m+2}^K for the listed (K,m) x every strict ordering of spreads + all-equal x "
        "{sorted, interleaved} label layout (for K>=3 also with round/thin covariance matrices whose Frobenius and spectral norms rank differently) x donor draw {first m, last m, and every m-subset of the first "
        "donor when C(n,m)<=20}; plus histories: the output fed back 3 times, with and without the clusters' spreads being re-ranked (reversed) between applications. Reference model in refs.py "
        "(needy = size<2 in the input; donors = input clusters with >=2m that still hold >=2m, largest spread "
        "first, exactly m per refill; otherwise RuntimeError naming the donor shortage, input untouched). "
        "Plus larger fixed cases (sizes, m): " + str(LARGE) + " x 3 spread orders x 2 layouts x 2 draws. "
        "non-trivial = cases that repopulate or must raise")
    ctx.assumptions.append("reading of 'no cluster holds at least 2m points' as 'no donor can still spare m' (DESIGN.md C08)")


def replay(ctx, case):
    from vlib import lib
    lib.load("nojit")
    from fast_ticc import cluster_maintenance as cm
    cm.random = seams.ScriptedRandom()
    draw = case["draw"] if isinstance(case["draw"], str) else tuple(case["draw"])
    msg, tag = judge(tuple(case["sizes"]), case["m"], tuple(case["spreads"]), case["layout"], draw,
                     repeat=case.get("repeat", 1), respread=case.get("respread", False), shaped=case.get("shaped", False))
    ctx.cov["evaluations"] = 1
    if msg:
        ctx.violation(case, msg)
