"""C05 - reported log-likelihoods are exact Gaussian log-densities.

(a) E1 kernel grid through the likelihood table function and the per-point
    function with synthetic models: NW in {1,2,3,5,10,50,100,200}, precision
    matrices s*B with log-determinants from -3000 to +3000 (bracketing the
    +-745 range of log/exp), every mean/point tuple over {-1,0,2}^NW for
    NW<=3; interpreted and JIT-compiled kernels.
(b) E2 monitor: the table handed to the labelling step in every round and the
    per-point values of the result, on every enumerated main-loop run.
"""
import itertools
import json
import math
import os
import subprocess
import sys
import tempfile

import numpy as np

from vlib import refs
from vlib import mainloop as ml
from vlib import drivers  # noqa: F401
from vlib.ctx import scratch_dir, Acc, HarnessError, VERIF, stopped

LEVEL = "exploration"
MONS = ["C05"]
# -745 / +709.8 are where exp/log leave the double range; the band just inside (-744..-708: the
# determinant is a subnormal double) is enumerated densely, because a log(det) there is computed
# from a few significant bits only
LOGDETS = (-3000.0, -800.0, -750.0, -746.0, -744.0, -742.0, -740.0, -737.0, -734.0, -730.0, -725.0, -720.0, -715.0,
           -710.0, -700.0, -300.0, 0.0, 300.0, 700.0, 705.0, 709.0, 709.7, 710.0, 715.0, 800.0, 3000.0)
NWS_QUICK = (1, 2, 3, 5, 10, 50, 100)
NWS_THOROUGH = (1, 2, 3, 5, 10, 50, 100, 200)


def base_matrices(n):
    out = [("I", np.eye(n))]
    if n >= 2:
        t = 2 * np.eye(n) - np.eye(n, k=1) - np.eye(n, k=-1)
        out.append(("tridiag", t))
        # dense SPD with condition number 1e4 (fixed orthogonal basis)
        rng = np.random.default_rng(777 + n)
        q = np.linalg.qr(rng.normal(size=(n, n)))[0]
        e = np.logspace(-2, 2, n)
        d = (q * e) @ q.T
        out.append(("dense1e4", (d + d.T) / 2))
    return out


def thetas_for(n):
    """list of (tag, theta) with log det theta hitting each target (where entries stay representable)"""
    out = []
    for (bn, B) in base_matrices(n):
        ld0 = refs.chol_logdet(B)[0]
        for target in LOGDETS:
            if abs(target) > 600 * n:
                continue
            s = math.exp((target - ld0) / n)
            out.append((f"{bn}@{target:g}", B * s))
    return out


def patterns(n):
    if n <= 3:
        return [np.array(t, dtype=np.float64) for t in itertools.product((-1.0, 0.0, 2.0), repeat=n)]
    i = np.arange(n)
    return [np.zeros(n), np.where(i % 2 == 0, 2.0, -1.0), ((i * 7) % 3 - 1.0) * (1 + (i % 5) * 0.25)]


def offset_patterns(n):
    """points and means sitting on a large common offset (expanded quadratic forms cancel here)"""
    i = np.arange(n)
    base = [np.where(i % 2 == 0, 2.0, -1.0), ((i * 7) % 3 - 1.0) * (1 + (i % 5) * 0.25), np.zeros(n)]
    return [b + 1e6 for b in base]


def make_model(thetas, means, W, K):
    from fast_ticc.containers import arguments, model_state
    a = arguments.UserArguments(sparsity_weight=0.1, iteration_limit=1, label_switching_cost=1.0,
                                min_cluster_size=1, min_meaningful_covariance=0, num_clusters=K,
                                num_processors=1, window_size=W, biased_covariance=False)
    m = model_state.ModelState.empty_model(a, np.zeros((1, len(means[0]))))
    for c, th, mu in zip(m.clusters, thetas, means):
        c.train_inverse = th.copy()
        c.stacked_data_mean = mu.copy()
    return m


def work(task):
    (n, K, mode) = task
    from vlib import lib
    lib.load(mode)
    from fast_ticc import likelihood
    acc = Acc()
    variants = thetas_for(n)
    pats = patterns(n)
    W = 1 if n % 2 else 2
    if n == 1:
        W = 1
    X = np.array(pats)
    M = len(variants)
    for start in range(M):
        if stopped():
            break
        ths = [variants[(start + j * 3) % M] for j in range(K)]
        mean_sets = [pats] if n <= 3 and K == 1 else [[pats[(start + j) % len(pats)]] for j in range(K)]
        # for NW<=3 and K=1: every mean tuple x every point tuple; otherwise rotating means
        mean_choices = [[mu] for mu in pats] if (n <= 3 and K == 1) else \
            [[pats[(start + j) % len(pats)] for j in range(K)]]
        for means in mean_choices:
            model = make_model([t for (_, t) in ths], means, W, K)
            case = {"NW": n, "K": K, "W": W, "thetas": [t for (t, _) in ths], "start": start, "mode": mode,
                    "means": [m.tolist() if n <= 10 else "pattern" for m in means]}
            try:
                table = np.asarray(likelihood.all_points_all_clusters_log_likelihood(model, X))
            except Exception as e:
                acc.n += 1
                acc.fail(case, f"likelihood table raised {type(e).__name__}: {e}")
                continue
            if table.shape != (len(X), K):
                acc.n += 1
                acc.fail(case, f"table shape {table.shape} != {(len(X), K)}")
                continue
            for k in range(K):
                th = ths[k][1]
                for i in range(len(X)):
                    acc.n += 1
                    want, scale = refs.gaussian_logpdf_precision(X[i], means[k], th)
                    got = float(table[i, k])
                    if abs(refs.chol_logdet(th)[0]) > 745:
                        acc.nontrivial += 1
                    if not np.isfinite(got) or abs(got - want) > 1e-10 * scale:
                        acc.fail(case, f"NW={n} theta={ths[k][0]} point {i}: table gives {got!r}, "
                                       f"Gaussian log-density is {want!r}")
                        break
            # stacked data of another real dtype (values -1,0,2 are exact in all of them): same table
            if n <= 10 and start % 3 == 0:
                for dt in (np.int64, np.float32, np.int32, np.dtype(np.float64).newbyteorder()):
                    acc.n += 1
                    try:
                        t2 = np.asarray(likelihood.all_points_all_clusters_log_likelihood(
                            make_model([t for (_, t) in ths], means, W, K), X.astype(dt)), dtype=np.float64)
                    except Exception as e:
                        acc.fail(dict(case, x_dtype=str(np.dtype(dt))), f"{np.dtype(dt)} data: raised {type(e).__name__}: {e}")
                        continue
                    exact = np.array_equal(X.astype(dt).astype(np.float64), X)
                    if exact and (t2.shape != table.shape or not np.allclose(t2, table, rtol=1e-12, atol=0, equal_nan=True)):
                        i, k = np.argwhere(~np.isclose(t2, table, rtol=1e-12, atol=0))[0]
                        acc.fail(dict(case, x_dtype=str(np.dtype(dt))),
                                 f"{np.dtype(dt)} data: table entry ({i},{k}) is {t2[i, k]!r}, float64 data gives {table[i, k]!r}")
            # the same model shape on data with a large additive offset (well-conditioned thetas only)
            if start % 4 == 1 and all(abs(refs.chol_logdet(t)[0]) <= 700 and "dense" not in nm for (nm, t) in ths):
                Xo = np.array(offset_patterns(n))
                mo = [Xo[(j + 1) % len(Xo)] + 0.5 for j in range(K)]
                acc.n += 1
                try:
                    to = np.asarray(likelihood.all_points_all_clusters_log_likelihood(
                        make_model([t for (_, t) in ths], mo, W, K), Xo), dtype=np.float64)
                    for k in range(K):
                        for i in range(len(Xo)):
                            want, scale = refs.gaussian_logpdf_precision(Xo[i], mo[k], ths[k][1])
                            # differences x - mu are exact here; allow eps * |x| * |theta| * |d| on top
                            tol = 1e-10 * scale + 64 * 2.3e-16 * 1e6 * float(np.abs(ths[k][1]).sum()) * float(np.abs(Xo[i] - mo[k]).max() + 1)
                            if not np.isfinite(to[i, k]) or abs(to[i, k] - want) > tol:
                                acc.fail(dict(case, offset=1e6), f"NW={n} theta={ths[k][0]} data offset 1e6: table gives "
                                         f"{to[i, k]!r}, Gaussian log-density is {want!r}")
                                raise StopIteration
                except StopIteration:
                    pass
                except Exception as e:
                    acc.fail(dict(case, offset=1e6), f"offset data: raised {type(e).__name__}: {e}")
            # per-point function on the same (now refreshed) clusters
            if start % 2 == 0:
                Nn = n // W
                for k in range(K):
                    c = model.clusters[k]
                    if c.inverse_covariance is None or c.log_determinant is None:
                        continue          # only defined once the table function has refreshed the cluster
                    acc.n += 1
                    got = float(likelihood.point_log_likelihood(X[-1], c, W, Nn))
                    want, scale = refs.gaussian_logpdf_precision(X[-1], means[k], ths[k][1])
                    if not np.isfinite(got) or abs(got - want) > 1e-10 * scale:
                        acc.fail(case, f"point_log_likelihood gives {got!r}, Gaussian log-density is {want!r}")
    acc.sample({"NW": n, "K": K, "mode": mode, "theta_variants": [t for (t, _) in variants][:6],
                "points": len(X)})
    return acc.result()


def tasks_for(tier, mode):
    nws = NWS_THOROUGH if tier == "thorough" else NWS_QUICK
    return [(n, K, mode) for n in nws for K in (1, 2, 3)]


def run(ctx):
    from vlib import lib
    lib.load("nojit")
    ts = tasks_for(ctx.tier, "nojit")
    ts.sort(key=lambda t: -t[0])
    for r in ctx.pmap(work, ts):
        ctx.take(r)
    n_nojit = ctx.cov["evaluations"]
    # JIT-compiled kernels in a separate process
    out = scratch_dir("c05_")
    path = os.path.join(out, "jit.json")
    try:
        p = subprocess.run([sys.executable, "-m", "vlib.run", "C05", "--tier", ctx.tier, "--mode", "jit",
                            "--arg", path], cwd=VERIF, stdout=subprocess.DEVNULL,
                           # thread-count independence is C15's business; 16 spinning numba threads on a busy
                           # machine make this pass take minutes instead of seconds
                           env=dict(os.environ, NUMBA_NUM_THREADS="4"))
        if p.returncode != 0 or not os.path.exists(path):
            raise HarnessError(f"jit sub-process failed rc={p.returncode}")
        with open(path) as f:
            for r in json.load(f):
                r["nontrivial"] = 0
                r["samples"] = r.get("samples", [])[:0]
                ctx.take(r)
    finally:
        try:
            if os.path.exists(path):
                os.remove(path)
            os.rmdir(out)
        except OSError:
            pass
    ctx.cov["evaluations_interpreted"] = n_nojit
    ctx.cov["evaluations_jit"] = ctx.cov["evaluations"] - n_nojit
    # (b) end to end
    L = 20
    menu = [("k2a", [L], 1), ("k2m1", [L], 0), ("k2mat", [L], 0), ("k2eps2", [L], 0), ("k2e5", [L], 0), ("k2off", [L], 0)]
    if ctx.thorough:
        menu += [("k2b", [L], 1), ("k3a", [L], 1), ("k2w3", [L], 1), ("k2eps", [L], 0), ("k2vec", [L], 0)]
    ps = ml.e2_plans(ctx, menu, MONS, conform=False)
    ps += ml.e2_plans(ctx, [("long6k", [3], 0)], MONS, conform=False, inits=drivers.long_inits)
    if ctx.thorough:
        ps += ml.e2_plans(ctx, [("big100", [3], 0)], MONS, entry="front", conform=False,
                          inits=lambda d: ml.block_labellings(d.Tp, d.K)[:1])
    ml.explore(ctx, ps)
    ctx.cov["exhaustive"] = True
    ctx.cov["rule"] = (
        "(a) NW in " + str(list(NWS_THOROUGH if ctx.thorough else NWS_QUICK)) + ", Theta = s*B for B in {I, "
        "tridiagonal Toeplitz(2,-1), dense SPD cond 1e4} with s such that log det Theta in " + str(list(LOGDETS)) + " (|log det| <= 600 NW; dense "
        "in the subnormal-determinant band), K in {1,2,3}; NW<=3: every mean tuple x every point tuple over "
        "{-1,0,2}^NW, beyond: 3 fixed patterns; table function and per-point function, interpreted and JIT; "
        "oracle = Cholesky log-density, tolerance 1e-10 x (|logdet| + quad + NW log 2pi) + 32 NW cond(Theta) eps (1+quad) (the error any binary64 evaluation carries), value must be finite. "
        "(b) every round's table at the labelling step and the result's per-point values (as a multiset) on "
        "enumerated main-loop runs. non-trivial = entries whose |log det| > 745 (outside exp/log range); "
        "completed runs with >= 2 rounds")
    ctx.assumptions.append("reference log-density via numpy Cholesky")


@ml.driver("big100")
def _big100(seed):
    # the regime named in the property: NW = 100, sensor standard deviation 100
    rng = np.random.default_rng(97)
    T, N = 260, 10
    a = rng.normal(0.0, 100.0, size=(T // 2, N))
    b = rng.normal(150.0, 60.0, size=(T - T // 2, N))
    return ml.Driver("big100", [np.round(np.concatenate([a, b]), 2)], W=10, K=2, lam=0.11, beta=50.0, m=20)


def mode_main(mode, arg, tier, seed):
    res = [work(t) for t in tasks_for(tier, mode)]
    with open(arg, "w") as f:
        json.dump(res, f, default=lambda o: o.tolist() if hasattr(o, "tolist") else repr(o))
    return 0


def replay(ctx, case):
    if "NW" in case:
        from vlib import lib
        lib.load(case["mode"])
        ctx.take(work((case["NW"], case["K"], case["mode"])))
        return
    ml.replay_case(ctx, case, MONS, conform=False)
