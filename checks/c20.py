"""C20 - failures surface as exceptions, never as a partial result.

E4 fault enumeration: a picklable exception raised in the optimisation task of
(round r, cluster k) for every r<3, k<K (real multiprocessing.Pool through a
tagging trampoline, three pool modes; and exhaustively on the virtual pool);
a fault in each phase at each round; no-donor; each front end given the other
front end's kind of input.  Oracle: the call raises the expected error within
the watchdog, returns nothing, leaves no live child process WHILE THE EXCEPTION
IS STILL REFERENCED, and a clean call in the same process afterwards returns a
result bitwise equal to the clean reference.
"""
import os
import random
import signal

import numpy as np

from vlib import mainloop as ml
from vlib import realpool
from vlib import drivers  # noqa: F401
from vlib.ctx import Acc, HarnessError, stopped
from vlib.seams import TRACER
from checks.c14 import result_digest

LEVEL = "fault_enumeration"


class InjectedFault(Exception):
    """harness-defined, picklable"""


class Hang(BaseException):
    pass


EXC = {"ValueError": lambda m: ValueError(m), "LinAlgError": lambda m: np.linalg.LinAlgError(m),
       "InjectedFault": lambda m: InjectedFault(m), "AttributeError": lambda m: AttributeError(m),
       "TypeError": lambda m: TypeError(m), "KeyError": lambda m: KeyError(m), "IndexError": lambda m: IndexError(m),
       "RuntimeError": lambda m: RuntimeError(m), "AssertionError": lambda m: AssertionError(m),
       "ZeroDivisionError": lambda m: ZeroDivisionError(m), "OSError": lambda m: OSError(m),
       # raised without any argument (bare `raise ValueError()`, a failed bare assert)
       "ValueError()": lambda m: ValueError(), "AssertionError()": lambda m: AssertionError(),
       "InjectedFault()": lambda m: InjectedFault()}

K = 3
INIT = None


def probe_series():
    return ml.three_regime_series(36, 2, 71)


def probe_init(Tp):
    # a deliberately poor start so that the run needs several rounds
    return tuple((i // 4) % K for i in range(Tp))


def call(pool_mode, faults=None, phase_fault=None, kind="ok", limit=6):
    """one front-end call under the given fault plan; returns result or raises"""
    import fast_ticc
    s = probe_series()
    W = 1
    Tp = len(s) - W + 1
    TRACER.install()
    TRACER.deep = False
    if pool_mode == "virtual":
        factory = "virtual"
        tf = None
        if faults:
            ((r, k), e), = faults.items()
            tf = (r, k, e)
        TRACER.begin(init_labels=probe_init(Tp), pool_factory="virtual", task_fault=tf, phase_fault=phase_fault)
    else:
        P = {"default": 1, "mpK": K, "mp2": 2}[pool_mode]
        if pool_mode != "default":
            os.environ["CUPCAKE_ENABLE_MULTIPROCESSING"] = "1"
        else:
            os.environ.pop("CUPCAKE_ENABLE_MULTIPROCESSING", None)
        factory = realpool.make_factory(K, faults=faults) if faults else "real"
        TRACER.begin(init_labels=probe_init(Tp), pool_factory=factory, phase_fault=phase_fault)
    kw = dict(window_size=W, num_clusters=K, sparsity_weight=0.11, label_switching_cost=1.0,
              iteration_limit=limit, num_processors={"virtual": 1, "default": 1, "mpK": K, "mp2": 2}[pool_mode],
              min_cluster_size=2)
    try:
        if kind == "ok":
            return fast_ticc.ticc_labels(s.copy(), **kw)
        if kind == "no_donor":
            kw.update(label_switching_cost=1e9, min_cluster_size=Tp)
            return fast_ticc.ticc_labels(s.copy(), **kw)
        if kind == "no_donor_edge":
            # everything collapses into one cluster of exactly 2m-1 points: one short of what a donor needs
            n = Tp if Tp % 2 == 1 else Tp - 1
            # (two clusters: a single refill is asked of it)
            kw.update(label_switching_cost=1e9, min_cluster_size=(n + 1) // 2, num_clusters=2)
            TRACER.init_labels = [(i // 4) % 2 for i in range(n)]
            return fast_ticc.ticc_labels(s[:n + W - 1].copy(), **kw)
        if kind == "no_donor_partial":
            # one donor that can serve two of the three needy clusters, not the third
            kw.update(label_switching_cost=1e9, min_cluster_size=5, num_clusters=4)
            short = s[:19].copy()
            TRACER.init_labels = [0] * 10 + [1] * 3 + [2] * 3 + [3] * 3
            return fast_ticc.ticc_labels(short, **kw)
        if kind == "list_to_single":
            return fast_ticc.ticc_labels([s.copy(), s.copy()], **kw)
        if kind == "tuple_to_single":
            return fast_ticc.ticc_labels((s.copy(), s.copy()), **kw)
        if kind == "iterator_to_single":
            return fast_ticc.ticc_labels(iter([s.copy(), s.copy()]), **kw)
        if kind == "deque_to_single":
            import collections
            return fast_ticc.ticc_labels(collections.deque([s.copy(), s.copy()]), **kw)
        if kind == "array_to_joint":
            return fast_ticc.ticc_joint_labels(s.copy(), **kw)
        raise HarnessError(kind)
    finally:
        os.environ.pop("CUPCAKE_ENABLE_MULTIPROCESSING", None)


def scenario(task):
    """runs in a fresh process; returns a verdict dict"""
    from vlib import lib
    lib.load("nojit")
    (pool_mode, fault_kind, where, exc_name, call_kind) = task
    np.random.seed(7)
    random.seed(7)

    def on_alarm(signum, frame):
        if not armed[0]:
            return
        import faulthandler
        import tempfile
        with tempfile.TemporaryFile(mode="w+") as f:
            faulthandler.dump_traceback(file=f, all_threads=True)
            f.seek(0)
            stacks[:] = [f.read()[-3000:]]
        raise Hang()
    stacks = []
    armed = [False]
    signal.signal(signal.SIGALRM, on_alarm)

    def arm(seconds):
        # repeating: a first Hang may be swallowed by a cleanup path that blocks again
        armed[0] = seconds > 0
        signal.setitimer(signal.ITIMER_REAL, seconds, 5.0 if seconds > 0 else 0.0)
    msg_text = f"injected fault at {where}"
    faults = phase_fault = None
    if fault_kind == "task":
        faults = {tuple(where): EXC[exc_name](msg_text)}
    elif fault_kind == "phase":
        phase_fault = (where[0], where[1], EXC[exc_name](msg_text))
    out = {"task": task, "problems": [], "reached": True}
    kids0 = realpool.live_children()
    held = None
    result = None
    arm(60)
    try:
        result = call(pool_mode, faults=faults, phase_fault=phase_fault, kind=call_kind)
    except Hang:
        arm(0)
        out["problems"].append("the call did not return or raise within 60 s (hang); stacks: " + "".join(stacks))
        return out
    except HarnessError:
        raise
    except BaseException as e:
        held = e                      # keep it referenced, like a caller inside its except block
    finally:
        arm(0)
    if fault_kind == "task" and pool_mode != "virtual":
        pass
    # was the fault point reached at all?
    if held is None:
        rounds = len(TRACER.rounds())
        fired = False
        if fault_kind in ("task", "phase"):
            r = where[0]
            fired = r < rounds if fault_kind == "task" else any(ev.get("faulted") for ev in TRACER.events)
            if fault_kind == "phase" and where[1] in ("bic", "ch", "cll"):
                fired = any(ev.get("faulted") for ev in TRACER.events)
        if fault_kind in ("task", "phase") and not fired:
            out["reached"] = False        # the run ended before this fault point: nothing to judge
        else:
            out["problems"].append(f"a result was returned although {describe(task)} failed "
                                   f"(labels {getattr(result, 'point_labels', None)})"[:300])
    else:
        want_type, want_text = expected(task, msg_text)
        if not isinstance(held, want_type):
            out["problems"].append(f"raised {type(held).__name__}: {held} instead of {want_type.__name__}"[:300])
        elif want_text and not all(t.lower() in str(held).lower() for t in want_text):
            out["problems"].append(f"{type(held).__name__} message {str(held)!r} does not mention {want_text}"[:300])
        kids = [p for p in realpool.live_children() if p not in kids0]
        if kids:
            out["problems"].append(f"{len(kids)} worker process(es) still alive while the caller holds the exception")
    out["raised"] = None if held is None else type(held).__name__
    # a clean call in the same process behaves as if the failed call had not happened
    arm(60)
    try:
        clean = call("default", kind="ok")
        out["clean_digest"] = result_digest(clean)
    except Hang:
        out["problems"].append("the clean call after the failure hangs")
    except HarnessError:
        raise
    except BaseException as e:
        out["problems"].append(f"the clean call after the failure raises {type(e).__name__}: {e}"[:300])
    finally:
        arm(0)
    kids = [p for p in realpool.live_children() if p not in kids0]
    if kids and not out["problems"]:
        out["problems"].append(f"{len(kids)} worker process(es) alive after the clean follow-up call")
    del held
    return out


def describe(task):
    (pool_mode, fault_kind, where, exc_name, call_kind) = task
    if fault_kind == "task":
        return f"the optimisation task of round {where[0]}, cluster {where[1]} ({pool_mode} pool)"
    if fault_kind == "phase":
        return f"phase {where[1]} of round {where[0]}"
    return call_kind


def expected(task, msg_text):
    (pool_mode, fault_kind, where, exc_name, call_kind) = task
    if fault_kind in ("task", "phase"):
        return type(EXC[exc_name]("x")), ([] if exc_name.endswith("()") else [msg_text])
    if call_kind in ("no_donor", "no_donor_partial", "no_donor_edge"):
        return RuntimeError, ["donor"]
    if call_kind in ("list_to_single", "tuple_to_single", "iterator_to_single", "deque_to_single"):
        return TypeError, ["ticc_joint_labels"]
    if call_kind == "array_to_joint":
        return TypeError, ["ticc_labels"]
    raise HarnessError(call_kind)


def reference(task):
    from vlib import lib
    lib.load("nojit")
    np.random.seed(7)
    random.seed(7)
    res = call("default", kind="ok")
    return result_digest(res), len(TRACER.rounds())


def plan(ctx):
    tasks = []
    R = 3
    for mode in ("default", "mpK", "mp2", "virtual"):
        for r in range(R):
            for k in range(K):
                tasks.append((mode, "task", (r, k), "ValueError", "ok"))
        for exc in ("LinAlgError", "InjectedFault"):
            tasks.append((mode, "task", (1, 1), exc, "ok"))
        for exc in ("ValueError()", "AssertionError()", "InjectedFault()"):
            tasks.append((mode, "task", (1, 1) if mode != "mp2" else (0, 0), exc, "ok"))
        if mode in ("default", "virtual"):
            # "the original error": every common built-in class must come through unchanged
            for exc in ("AttributeError", "TypeError", "KeyError", "IndexError", "RuntimeError", "AssertionError",
                        "ZeroDivisionError", "OSError"):
                tasks.append((mode, "task", (1, 0) if mode == "default" else (0, 2), exc, "ok"))
            if ctx.thorough:
                for (r, k) in ((0, 0), (2, 2), (0, 2)):
                    tasks.append((mode, "task", (r, k), exc, "ok"))
        if ctx.thorough and mode in ("default", "mpK", "virtual"):
            # every built-in class at every fault point
            for exc in ("AttributeError", "TypeError", "KeyError", "IndexError", "RuntimeError", "AssertionError",
                        "ZeroDivisionError", "OSError"):
                for r in range(R):
                    for k in range(K):
                        tasks.append((mode, "task", (r, k), exc, "ok"))
    for mode in ("default", "mpK") + (("mp2",) if ctx.thorough else ()):
        for r in range(R):
            for ph in ("repop", "stats", "opt", "relabel"):
                if ph == "repop" and r == 0:
                    continue
                tasks.append((mode, "phase", (r, ph), "InjectedFault", "ok"))
        for ph in ("bic", "ch", "cll"):
            tasks.append((mode, "phase", (0, ph), "InjectedFault", "ok"))
    for mode in ("default", "mpK"):
        for kind in ("no_donor", "no_donor_partial", "no_donor_edge", "list_to_single", "tuple_to_single", "iterator_to_single",
                     "deque_to_single", "array_to_joint"):
            tasks.append((mode, "call", None, None, kind))
    return tasks


def run(ctx):
    from vlib import lib
    lib.load("nojit")
    (refd, rounds) = realpool.fresh_map(reference, [None])[0]
    if rounds < 3:
        raise HarnessError(f"probe run has only {rounds} rounds; fault points at round 2 would be unreachable")
    tasks = plan(ctx)
    outs = realpool.fresh_map(scenario, tasks, jobs=12, timeout=200,
                              on_timeout=lambda t: {"task": t, "reached": True,
                                                    "problems": ["the scenario did not finish within 200 s (hang)"]})
    acc = Acc(max_fails=5)
    for t, o in zip(tasks, outs):
        acc.n += 1
        case = {"pool_mode": t[0], "fault_kind": t[1], "where": None if t[2] is None else list(t[2]),
                "exception": t[3], "call": t[4]}
        if not o["reached"]:
            acc.count("fault_point_not_reached")
            continue
        acc.nontrivial += 1
        acc.count("raised_as", str(o.get("raised")))
        for p in o["problems"]:
            acc.fail(case, f"{describe(t)}: {p}")
        if "clean_digest" in o and o["clean_digest"] != refd:
            acc.fail(case, f"after {describe(t)} failed, a clean call returns a different result than in a fresh process")
    acc.sample({"probe": {"series": [36, 2], "W": 1, "K": K, "rounds_of_clean_run": rounds},
                "fault_points": [[t[0], t[1], t[2], t[3], t[4]] for t in tasks[:6]]})
    acc.count("scenarios", by=len(tasks))
    ctx.take(acc.result())
    ctx.cov["exhaustive"] = True
    ctx.cov["rule"] = (
        "fault points: optimisation task (r,k) for every r<3, k<3 x pool mode {default Pool(1), multiprocessing on "
        "with P=K, P=2, virtual} raising ValueError (LinAlgError and a harness-defined class at (1,1); three argument-less exceptions per pool mode; eight more built-in classes "
        "incl. AttributeError/TypeError/KeyError at one point each for Pool(1) and virtual; thorough: 3 more points); phase fault at every (round<3, phase in repop/stats/opt/relabel) and in the three metric "
        "functions x {default, P=K}; no-donor (no donor at all; one donor that can serve only two of three needy clusters; one cluster of exactly 2m-1 points), joint-style input (list, tuple, iterator, deque of arrays) to ticc_labels, array to ticc_joint_labels x {default, P=K}. "
        "Each scenario in its own fresh process with a 60 s watchdog: expected exception type and message, no "
        "result, no live children while the exception is referenced, clean follow-up call bitwise equal to the "
        "clean reference. non-trivial = scenarios whose fault point was reached")
    ctx.assumptions += ["a worker killed outright (os._exit) is out of scope: CPython's Pool blocks forever on it",
                        "live children are read from /proc (ppid match, non-zombie)"]


def replay(ctx, case):
    from vlib import lib
    lib.load("nojit")
    t = (case["pool_mode"], case["fault_kind"], None if case["where"] is None else tuple(case["where"]),
         case["exception"], case["call"])
    (refd, rounds) = realpool.fresh_map(reference, [None])[0]
    o = realpool.fresh_map(scenario, [t], timeout=200)[0]
    ctx.cov["evaluations"] = 1
    for p in o["problems"]:
        ctx.violation(case, f"{describe(t)}: {p}")
    if "clean_digest" in o and o["clean_digest"] != refd and not o["problems"]:
        ctx.violation(case, "clean follow-up call differs from the fresh-process reference")
