"""C17 - the Calinski-Harabasz index matches its definition.

(a) E1 at function level: every labelling of T' in 4..8 windows into K in
    {2,3} non-empty clusters on two integer-valued data sets and their
    per-sensor translations; oracle = [B/(K-1)]/[Wd/(T-K)] with the per-column
    centroid, plus invariance under per-sensor translation.
(b) E2 monitor on every converged main-loop run with all clusters non-empty.

Known finding: the code centres the between-cluster term on the scalar mean of
all entries.  A case whose reported value equals the same formula with that
scalar centre is classified 'ch-scalar-centre' (KNOWN-FINDING); anything else
is a violation.
"""
import itertools

import numpy as np

from vlib import refs
from vlib import mainloop as ml
from vlib import drivers  # noqa: F401
from vlib.ctx import Acc, stopped

LEVEL = "exploration"
MONS = ["C17"]


def datasets(T):
    base1 = np.array([[(3 * i + 2 * j * j + (i * j) % 3) % 11 for j in range(3)] for i in range(T)], dtype=np.float64)
    base2 = np.array([[(5 * i * i + 1) % 7, (2 * i + 3) % 5] for i in range(T)], dtype=np.float64)
    # columns with equal means: the scalar centre coincides with the centroid
    half = np.array([1.0, -1.0] * (T // 2) + [0.0] * (T % 2))
    base3 = np.stack([half, half[::-1].copy(), -half], axis=1)
    return [("a", base1), ("b", base2), ("equal_means", base3)]


def make_model(X, labels, K, biased=False):
    from fast_ticc.containers import arguments, model_state
    a = arguments.UserArguments(sparsity_weight=0.1, iteration_limit=1, label_switching_cost=1.0,
                                min_cluster_size=1, min_meaningful_covariance=0, num_clusters=K,
                                num_processors=1, window_size=1, biased_covariance=biased)
    m = model_state.ModelState.empty_model(a, X)
    m.point_labels = list(labels)
    for k, c in enumerate(m.clusters):
        idx = [i for i, l in enumerate(labels) if l == k]
        c.stacked_data_mean = X[idx].mean(axis=0)
        if len(idx) >= 2:
            c.empirical_covariance = np.atleast_2d(np.cov(X[idx].T, bias=biased))
    return m


def classify(got, X, labels, K):
    """(message, signature) or None"""
    want = refs.calinski_harabasz(X, labels, K, "column")
    if not np.isfinite(want):
        return "skip"
    if abs(got - want) <= 1e-9 * abs(want) + 1e-12:
        return None
    alt = refs.calinski_harabasz(X, labels, K, "scalar")
    sig = "ch-scalar-centre" if abs(got - alt) <= 1e-9 * abs(alt) + 1e-12 else None
    return (f"index {got!r} != [B/(K-1)]/[Wd/(T-K)] = {want!r}"
            + (" (equals the formula with the scalar mean of all entries as centre)" if sig else ""), sig)


def work(task):
    from vlib import lib
    lib.load("nojit")
    from fast_ticc import cluster_metrics
    (T, K) = task
    acc = Acc()
    for (dn, X0) in datasets(T):
        shifts = list(itertools.product((0.0, 1.0, 100.0), repeat=X0.shape[1]))
        # large offsets (exact in binary64 on integer data): one-pass formulas cancel here
        for big in (1e6, 2.5e8):
            for j in range(X0.shape[1]):
                shifts.append(tuple(big if i == j else 0.0 for i in range(X0.shape[1])))
        for shift in shifts:
            if dn != "a" and sum(1 for s in shift if s) > 1:
                continue
            X = X0 + np.array(shift)[None, :]
            for labels in itertools.product(range(K), repeat=T):
                if len(set(labels)) < K:
                    continue
                if stopped():
                    return acc.result()
                acc.n += 1
                m = make_model(X, labels, K)
                case = {"T": T, "K": K, "data": dn, "shift": list(shift), "labels": list(labels)}
                try:
                    got = float(cluster_metrics.calinski_harabasz_index(X, m))
                except Exception as e:
                    acc.fail(case, f"raised {type(e).__name__}: {e}")
                    continue
                res = classify(got, X, labels, K)
                if res == "skip":
                    acc.count("degenerate_zero_dispersion")
                    continue
                acc.nontrivial += 1
                if res is not None:
                    acc.fail(case, res[0], res[1])
                # the index is scale invariant: the same data in units of 2^-17 (exact scaling) and with the
                # biased-estimator option set must report the same value
                if not any(shift) and dn != "equal_means":
                    for (tag, Xs, biased) in (("scaled by 2^-17", X * 2.0 ** -17, False), ("biased_covariance=True", X, True)):
                        acc.n += 1
                        try:
                            g2 = float(cluster_metrics.calinski_harabasz_index(Xs, make_model(Xs, labels, K, biased)))
                        except Exception as e:
                            acc.fail(dict(case, variant=tag), f"{tag}: raised {type(e).__name__}: {e}")
                            continue
                        if abs(g2 - got) > 1e-9 * abs(got) + 1e-12:
                            acc.fail(dict(case, variant=tag), f"{tag}: index {g2!r}, plain data gives {got!r}")
                # translation invariance against the unshifted data set (same labels)
                if any(shift):
                    base = float(cluster_metrics.calinski_harabasz_index(X0, make_model(X0, labels, K)))
                    wb = refs.calinski_harabasz(X0, labels, K, "column")
                    if np.isfinite(wb) and abs(got - base) > 1e-7 * abs(wb) + 1e-9:
                        alt0 = refs.calinski_harabasz(X0, labels, K, "scalar")
                        alt1 = refs.calinski_harabasz(X, labels, K, "scalar")
                        known = (abs(base - alt0) <= 1e-9 * abs(alt0) + 1e-12 and
                                 abs(got - alt1) <= 1e-9 * abs(alt1) + 1e-12)
                        acc.fail(case, f"index changes from {base!r} to {got!r} when {shift} is added to the sensors",
                                 "ch-scalar-centre" if known else None)
    acc.sample({"T": T, "K": K, "datasets": ["a", "b", "equal_means"], "shifts": [0, 1, 100]})
    return acc.result()


BIG_SIZES = [(5000, 1200), (4096, 4097), (4097, 2), (8193, 5, 3), (3, 12289)]


def big_case(sizes, ncol):
    T = sum(sizes)
    labels = []
    for k, n in enumerate(sizes):
        labels += [k] * n
    # interleave a little so that members are not one contiguous range
    labels[1], labels[-2] = labels[-2], labels[1]
    i = np.arange(T)
    cols = [((i * 37) % 101) / 4.0 + 10.0 * np.array(labels), ((i * 11) % 13) * 0.5 - np.array(labels)]
    X = np.stack(cols[:ncol], axis=1)
    return X, tuple(labels)


def work_big(task):
    """cluster sizes beyond 4096 (block-wise processing): one column, where the centre the code uses and the
    per-column centroid coincide, and two columns"""
    from vlib import lib
    lib.load("nojit")
    from fast_ticc import cluster_metrics
    (sizes, ncol) = task
    acc = Acc()
    X, labels = big_case(sizes, ncol)
    K = len(sizes)
    acc.n += 1
    case = {"kind": "big", "sizes": list(sizes), "columns": ncol}
    try:
        got = float(cluster_metrics.calinski_harabasz_index(X, make_model(X, labels, K)))
    except Exception as e:
        acc.fail(case, f"raised {type(e).__name__}: {e}")
        return acc.result()
    res = classify(got, X, labels, K)
    acc.nontrivial += 1
    if res not in (None, "skip"):
        acc.fail(case, f"cluster sizes {list(sizes)}: " + res[0], res[1])
    return acc.result()


def work_same_object(task):
    """ONE array object whose contents the caller changes in place between computations (and one model
    object re-labelled in place): every computation must describe the current contents"""
    from vlib import lib
    lib.load("nojit")
    from fast_ticc import cluster_metrics
    (T, K, dn) = task
    acc = Acc()
    X0 = dict(datasets(T))[dn]
    X = X0.copy()
    steps = [("plain", lambda: X0), ("plus 7.5", lambda: X0 + 7.5), ("first sensor plus 100", lambda: X0 + np.eye(X0.shape[1])[0] * 100.0),
             ("doubled", lambda: X0 * 2.0), ("plain again", lambda: X0)]
    for labels in itertools.product(range(K), repeat=T):
        if len(set(labels)) < K:
            continue
        if stopped():
            break
        for (name, f) in steps:
            X[...] = f()
            acc.n += 1
            acc.nontrivial += 1
            case = {"kind": "same_object", "T": T, "K": K, "data": dn, "labels": list(labels), "step": name}
            try:
                got = float(cluster_metrics.calinski_harabasz_index(X, make_model(X, labels, K)))
            except Exception as e:
                acc.fail(case, f"raised {type(e).__name__}: {e}")
                break
            res = classify(got, X, labels, K)
            if res not in (None, "skip"):
                acc.fail(case, f"same array object, contents now '{name}': " + res[0], res[1])
                if res[1] is None:
                    return acc.result()
    acc.sample({"kind": "same_object", "T": T, "K": K, "data": dn})
    return acc.result()


def run(ctx):
    from vlib import lib
    lib.load("nojit")
    for r in ctx.pmap(work_big, [(sz, nc) for sz in BIG_SIZES for nc in (1, 2)]):
        ctx.take(r)
    for r in ctx.pmap(work_same_object, [(T, K, dn) for T in (4, 5) for K in (2, 3) for dn in ("a", "b", "equal_means")]):
        ctx.take(r)
    tasks = [(T, K) for T in range(4, 9 if ctx.thorough else 7) for K in (2, 3)]
    tasks.sort(key=lambda t: -t[1] ** t[0])
    for r in ctx.pmap(work, tasks):
        ctx.take(r)
    L = 20
    menu = [("k2a", [L], 1), ("k2seed", [L], 0), ("k2m1", [L], 0)]
    if ctx.thorough:
        menu += [("k2b", [L], 1), ("k3a", [L], 1), ("k3b", [L], 0), ("k2mat", [L], 0), ("k2w3", [L], 0)]
    ps = ml.e2_plans(ctx, menu, MONS, conform=False)
    ps += ml.e2_plans(ctx, [("long6k", [3], 0)], MONS, conform=False, inits=drivers.long_inits)
    # the loop's control skeleton (scripted relabel outputs, see C09): final states whose labels differ from the
    # labels last fitted, incl. an emptied or singleton cluster, for every label sequence up to length 3
    from checks.c09 import work_skeleton, SK_ALPHA
    for r in ctx.pmap(work_skeleton, [(limit, [f], ("first",), ['C17']) for limit in (1, 2, 3) for f in sorted(SK_ALPHA)]):
        ctx.take(r)
    ml.explore(ctx, ps)
    ctx.cov["exhaustive"] = True
    ctx.cov["rule"] = (
        "(a) every labelling of T' in 4..6 (thorough 8) windows into K in {2,3} non-empty clusters x data sets "
        "{a (3 sensors), b (2 sensors), equal column means} x per-sensor translations over {0,1,100} (all 27 for a, "
        "single-sensor for the others) and single-sensor translations by 1e6 and 2.5e8: reported == definition with the per-column centroid (1e-9 relative) and "
        "unchanged under translation, under exact rescaling by 2^-17 and with the biased-estimator option set; a mismatch that equals the same formula with the scalar mean of all entries "
        "is the listed known finding, anything else a violation. (b) every converged enumerated main-loop run with "
        "all clusters non-empty. non-trivial = cases with non-zero within-cluster dispersion. "
        "(c) cluster sizes " + str(BIG_SIZES) + " with one and two columns (block-wise processing); (d) ONE array object whose "
        "contents are changed in place between computations (plain, +7.5, one sensor +100, doubled, plain) for every "
        "labelling of 4..5 windows; (e) the long6k driver (clusters of 5000/1200 windows)")
    ctx.cov["rule"] += (" Plus control-skeleton runs: the main loop with the relabel phase's output scripted, every label "
                        "sequence over 5 labellings up to length 3 (final labels that differ from the labels last fitted, "
                        "emptied and singleton clusters).")


def replay(ctx, case):
    if case.get("kind") == "skeleton":
        from vlib import lib
        lib.load("nojit")
        from checks.c09 import work_skeleton
        ctx.take(work_skeleton((case["limit"], [case["sequence"][0]], (case["draw"],), case.get("monitors", ['C17']))))
        return
    from vlib import lib
    lib.load("nojit")
    if case.get("kind") == "big":
        ctx.take(work_big((tuple(case["sizes"]), case["columns"])))
        return
    if case.get("kind") == "same_object":
        ctx.take(work_same_object((case["T"], case["K"], case["data"])))
        return
    if "data" in case:
        from fast_ticc import cluster_metrics
        T, K = case["T"], case["K"]
        X0 = dict(datasets(T))[case["data"]]
        X = X0 + np.array(case["shift"])[None, :]
        labels = tuple(case["labels"])
        got = float(cluster_metrics.calinski_harabasz_index(X, make_model(X, labels, K)))
        res = classify(got, X, labels, K)
        ctx.cov["evaluations"] = 1
        if res not in (None, "skip"):
            ctx.violation(case, res[0], res[1])
        return
    ml.replay_case(ctx, case, MONS, conform=False)
