"""C03 - every MRF is a finite, symmetric, positive-definite precision matrix.

(a) E1 scale grid through the optimisation phase: S = D C D, per-sensor
    variances over every tuple of a 24-orders-of-magnitude alphabet, C in
    {identity, 0.9-correlated, singular (duplicated sensor), constant sensor}.
(b) eps>0 clause, exhaustive over eps values incl. eps exactly equal to the
    magnitude of each entry of the eps=0 result.
(c) E2 monitor: every MRF returned or scored against in enumerated main-loop
    runs, and all float fields of the result, incl. badly scaled data sets.
"""
import itertools

import numpy as np

from vlib import codec, seams
from vlib import mainloop as ml
from vlib import drivers  # noqa: F401
from vlib.ctx import Acc, stopped

LEVEL = "exploration"
MONS = ["C03"]

S9 = [10.0 ** p for p in range(-12, 13, 3)]
S5 = [1e-12, 1e-6, 1.0, 1e6, 1e12]
S3 = [1e-12, 1.0, 1e12]
S2 = [1e-12, 1e12]
LAMS = (0.0, 1e-3, 0.11, 1.0)


def corr_family(n):
    out = [("identity", np.eye(n))]
    if n >= 2:
        c = np.full((n, n), 0.9)
        np.fill_diagonal(c, 1.0)
        out.append(("corr0.9", c))
        d = np.eye(n)
        d[0, 1] = d[1, 0] = 1.0           # sensors 0 and 1 identical: exactly singular
        out.append(("duplicate", d))
        z = np.eye(n)
        z[n - 1, :] = 0.0
        z[:, n - 1] = 0.0                 # last sensor constant: variance 0
        out.append(("constant", z))
    return out


def grid(tier):
    """(N, W, alphabet)"""
    if tier == "quick":
        return [(2, 1, S9), (1, 2, S9), (3, 1, S3), (1, 3, S3), (2, 2, S2), (1, 1, S9)]
    return [(1, 1, S9), (2, 1, S9), (1, 2, S9), (3, 1, S5), (1, 3, S5), (2, 2, S5), (4, 1, S5), (1, 4, S5)]


def make_S(s, C):
    d = np.sqrt(np.array(s))
    S = (C * d[:, None]) * d[None, :]
    return (S + S.T) / 2


def run_phase(N, W, covs, lam, eps):
    """push covariances through the real optimisation phase (one cluster each)"""
    from fast_ticc import graphical_lasso
    from fast_ticc.containers import arguments, model_state
    K = len(covs)
    a = arguments.UserArguments(sparsity_weight=lam, iteration_limit=1, label_switching_cost=1.0,
                                min_cluster_size=1, min_meaningful_covariance=eps, num_clusters=K,
                                num_processors=1, window_size=W, biased_covariance=False)
    X = np.zeros((K, N * W))
    m = model_state.ModelState.empty_model(a, X)
    m.point_labels = list(range(K))
    for c, S in zip(m.clusters, covs):
        c.empirical_covariance = S.copy()
        c.stacked_data_mean = np.zeros(N * W)
    return graphical_lasso.optimize_markov_random_fields(m, X, seams.VirtualPool())


def judge_mrf(theta, logdet):
    msg = ml.spd_violation(theta, "MRF")
    if msg:
        return msg
    if logdet is None or not np.isfinite(logdet):
        return f"stored log-determinant is {logdet!r} for a positive-definite MRF"
    L = np.linalg.cholesky(theta)
    want = 2 * float(np.sum(np.log(np.diag(L))))
    # any binary64 log-determinant carries ~cond(theta)*eps absolute error
    n = theta.shape[0]
    tol = 1e-9 * max(1.0, abs(want)) + 100 * n * np.linalg.cond(theta) * 2.3e-16
    if abs(float(logdet) - want) > tol:
        return f"stored log-determinant {float(logdet)!r} != {want!r}"
    return None


def work_scale(task):
    from vlib import lib
    lib.load("nojit")
    (N, W, alpha, first, lam) = task
    n = N * W
    acc = Acc()
    for (cn, C) in corr_family(n):
        if stopped():
            break
        tuples = [(first,) + r for r in itertools.product(alpha, repeat=n - 1)]
        for lo in range(0, len(tuples), 8):
            batch = tuples[lo:lo + 8]
            covs = [make_S(s, C) for s in batch]
            try:
                out = run_phase(N, W, covs, lam, 0)
                err = None
            except Exception as e:      # the phase promises an MRF for any PSD covariance
                out, err = None, e
            for i, s in enumerate(batch):
                acc.n += 1
                case = {"kind": "scale", "N": N, "W": W, "variances": list(s), "corr": cn, "lambda": lam}
                if err is not None:
                    # find the culprit with single-cluster calls
                    try:
                        one = run_phase(N, W, [covs[i]], lam, 0)
                        c = one.clusters[0]
                    except Exception as e1:
                        acc.fail(case, f"optimisation phase raised {type(e1).__name__}: {e1}")
                        continue
                else:
                    c = out.clusters[i]
                msg = judge_mrf(c.train_inverse, c.log_determinant)
                if max(s) / min(s) >= 1e6 or cn in ("duplicate", "constant"):
                    acc.nontrivial += 1
                if msg:
                    acc.fail(case, f"variances {s} corr={cn} lambda={lam}: {msg}")
    acc.sample({"kind": "scale", "N": N, "W": W, "first_variance": first, "alphabet": alpha, "lambda": lam})
    return acc.result()


_MEMO = {}


def memoise_solver():
    """the optimiser's answer does not depend on the floor; solve each S once
    (harness-side memo around the public entry point) and let the real phase
    apply its floor to that answer"""
    from fast_ticc import admm
    if getattr(admm, "_verif_memo", False):
        return
    orig = admm.admm_optimize_theta

    def memo(S, lam, *a, **k):
        key = (np.asarray(S).tobytes(), repr(lam), repr(a), repr(sorted(k.items())))
        if key not in _MEMO:
            _MEMO[key] = orig(S, lam, *a, **k)
        r = _MEMO[key]
        return type(r)(theta=np.array(r.theta, copy=True))
    admm.admm_optimize_theta = memo
    admm._verif_memo = True


def work_wide(task):
    """many sensors at an extreme common scale: the determinant leaves the
    double range although every entry is representable"""
    from vlib import lib
    lib.load("nojit")
    (N, W, var, lam) = task
    acc = Acc()
    n = N * W
    S = np.eye(n) * var
    acc.n += 1
    acc.nontrivial += 1
    case = {"kind": "wide", "N": N, "W": W, "variance": var, "lambda": lam}
    try:
        c = run_phase(N, W, [S], lam, 0).clusters[0]
        msg = judge_mrf(c.train_inverse, c.log_determinant)
    except Exception as e:
        msg = f"optimisation phase raised {type(e).__name__}: {e}"
    if msg:
        acc.fail(case, f"{n} sensors-by-window entries of variance {var}: {msg}")
    acc.sample(case)
    return acc.result()


def work_huge(task):
    """N*W beyond 256 (more than 65535 matrix entries, 8/16-bit index widths): dense seeded covariance"""
    from vlib import lib
    lib.load("nojit")
    (N, W, scale, lam) = task
    acc = Acc()
    n = N * W
    rng = np.random.default_rng(1000 + n)
    A = rng.normal(size=(n, n + 40))
    S = (A @ A.T) / (n + 40) * scale
    S = (S + S.T) / 2
    acc.n += 1
    acc.nontrivial += 1
    case = {"kind": "huge", "N": N, "W": W, "scale": scale, "lambda": lam}
    try:
        c = run_phase(N, W, [S], lam, 0).clusters[0]
        msg = judge_mrf(c.train_inverse, c.log_determinant)
    except Exception as e:
        msg = f"optimisation phase raised {type(e).__name__}: {e}"
    if msg:
        acc.fail(case, f"(N,W)=({N},{W}), dense covariance x {scale}: {msg}")
    acc.sample(case)
    return acc.result()


def work_eps(task):
    from vlib import lib
    lib.load("nojit")
    memoise_solver()
    (N, W, lam, cn) = task
    n = N * W
    acc = Acc()
    for (cn, C) in [(a, b) for (a, b) in corr_family(n) if a == cn]:
        for s in itertools.product((0.25, 1.0, 4.0), repeat=n):
            if stopped():
                break
            S = make_S(s, C)
            base = run_phase(N, W, [S], lam, 0).clusters[0].train_inverse
            mags = sorted(set(np.abs(base).ravel().tolist()))
            epss = [1e-12, 1e-4, 1e-2, 0.5, 10.0] + [m for m in mags if m > 0]
            for eps in epss:
                acc.n += 1
                case = {"kind": "eps", "N": N, "W": W, "variances": list(s), "corr": cn, "lambda": lam,
                        "eps": float(eps).hex()}
                try:
                    got = run_phase(N, W, [S], lam, eps).clusters[0].train_inverse
                except np.linalg.LinAlgError:
                    acc.count("floor_made_matrix_singular_phase_raised")
                    continue
                want = np.where(np.abs(base) >= eps, base, 0.0)
                if eps in mags:
                    acc.nontrivial += 1
                if got.shape != want.shape or got.tobytes() != want.tobytes():
                    bad = np.argwhere(got != want)
                    i, j = (bad[0] if len(bad) else (0, 0))
                    acc.fail(case, f"eps={eps!r}: entry ({i},{j}) is {got[i, j]!r}, optimiser produced "
                                   f"{base[i, j]!r} (expected {want[i, j]!r})")
    acc.sample({"kind": "eps", "N": N, "W": W, "lambda": lam})
    return acc.result()


# ---- badly scaled end-to-end drivers (clause c)
def _scaled(name, scales, seed, T=14, W=2, K=2, lam=0.11, beta=5.0):
    def make(_seed):
        s = ml.two_regime_series(T, len(scales), seed) * np.sqrt(np.array(scales))[None, :]
        return ml.Driver(name, [s], W=W, K=K, lam=lam, beta=beta, m=3)
    ml.DRIVERS[name] = make


_scaled("sc_hi", (1e12, 1.0), 41)
_scaled("sc_lo", (1e-12, 1.0), 43)
_scaled("sc_mix", (1e-12, 1e12), 47)
_scaled("sc_hi1", (1e9,), 53, W=3)


def block_inits(d):
    return ml.block_labellings(d.Tp, d.K) + [tuple((i // 3) % d.K for i in range(d.Tp))]


def run(ctx):
    from vlib import lib
    lib.load("nojit")
    tasks = []
    for (N, W, alpha) in grid(ctx.tier):
        for first in alpha:
            for lam in LAMS:
                tasks.append((N, W, alpha, first, lam))
    tasks.sort(key=lambda t: -len(t[2]) ** (t[0] * t[1]))
    for r in ctx.pmap(work_scale, tasks):
        ctx.take(r)
    wide = [(N, W, var, lam) for (N, W) in ((40, 1), (8, 5)) for var in (1e12, 1e-12) for lam in (0.0, 0.11)]
    for r in ctx.pmap(work_wide, wide):
        ctx.take(r)
    huge = [(N, W, sc, 0.11) for (N, W) in ((1, 260), (2, 130), (260, 1), (4, 65), (257, 1)) for sc in (1.0, 1e4)
            if not (W == 1 and sc != 1.0)]       # W = 1 at the large scale runs its full 1000 iterations (minutes interpreted)
    for r in ctx.pmap(work_huge, huge):
        ctx.take(r)
    etasks = [(N, W, lam, cn) for (N, W) in ((2, 1), (1, 2), (3, 1), (1, 3)) + (((2, 2),) if ctx.thorough else ())
              for lam in (0.0, 0.11, 1.0) for cn in ("identity", "corr0.9", "duplicate", "constant")]
    for r in ctx.pmap(work_eps, etasks):
        ctx.take(r)
    # (c) end to end
    L = 20
    menu = [("k2a", [L], 1), ("k2m1", [L], 0), ("k2big", [1, L], 0)]
    if ctx.thorough:
        menu += [("k2b", [L], 1), ("k3a", [L], 1), ("k2mat", [L], 1), ("k2w3", [L], 1)]
    ps = ml.e2_plans(ctx, menu, MONS, conform=False)
    ps += ml.e2_plans(ctx, [("sc_hi", [L], 0), ("sc_lo", [L], 0), ("sc_mix", [L], 0), ("sc_hi1", [L], 0)],
                      MONS, entry="front", conform=False, inits=block_inits)
    def spread_inits(d):
        T, K = d.Tp, d.K
        return [tuple(i % K for i in range(T)), tuple(min(K - 1, (i * K) // T) for i in range(T)),
                tuple((K - 1) - (i % K) for i in range(T))]
    ps += ml.e2_plans(ctx, [("k4col", [2, 3], 0), ("k4col9", [2, 3], 0)], MONS, entry="fit", conform=False, inits=spread_inits)
    ml.explore(ctx, ps)
    ctx.cov["exhaustive"] = True
    ctx.cov["scale_grid"] = [[N, W, a] for (N, W, a) in grid(ctx.tier)]
    ctx.cov["rule"] = (
        "(a) S = D C D with per-sensor variances over every tuple of the listed alphabet per shape, C in "
        "{identity, 0.9 correlation, duplicated sensor (singular), constant sensor}, lambda in {0,1e-3,0.11,1}, "
        "through the real optimisation phase: MRF finite, exactly symmetric, Cholesky succeeds, stored "
        "log-determinant finite and equal to 2*sum(log diag chol) within 1e-9 relative + 100 n cond(Theta) eps; (a'') N*W in {257, 260} in five factorisations, dense seeded covariance at scales 1 and 1e4 (W=1: scale 1 only); (a') NW=40 at a common variance of 1e12 / 1e-12 (determinant outside the double range); (b) eps in {1e-12,1e-4,1e-2,0.5,10} "
        "and eps == |entry| for every distinct entry of the eps=0 result: floored matrix bitwise equal to the "
        "reference filter; (c) every MRF and every float result field of enumerated main-loop runs incl. data "
        "sets with sensor variances 1e-12..1e12 (clusters with < 2 windows under the unbiased estimator are "
        "out of scope: their covariance is undefined). non-trivial = variance ratio >= 1e6 or singular C; eps on "
        "an entry boundary; completed runs with >= 2 rounds")
    ctx.assumptions.append("scale disparity is per-sensor (D C D), as in the property statement")


def replay(ctx, case):
    from vlib import lib
    lib.load("nojit")
    if case.get("kind") == "scale":
        N, W = case["N"], case["W"]
        C = dict(corr_family(N * W))[case["corr"]]
        S = make_S(tuple(case["variances"]), C)
        ctx.cov["evaluations"] = 1
        try:
            c = run_phase(N, W, [S], case["lambda"], 0).clusters[0]
        except Exception as e:
            ctx.violation(case, f"optimisation phase raised {type(e).__name__}: {e}")
            return
        msg = judge_mrf(c.train_inverse, c.log_determinant)
        if msg:
            ctx.violation(case, msg)
    elif case.get("kind") == "huge":
        ctx.take(work_huge((case["N"], case["W"], case["scale"], case["lambda"])))
    elif case.get("kind") == "wide":
        ctx.take(work_wide((case["N"], case["W"], case["variance"], case["lambda"])))
    elif case.get("kind") == "eps":
        N, W = case["N"], case["W"]
        C = dict(corr_family(N * W))[case["corr"]]
        S = make_S(tuple(case["variances"]), C)
        eps = float.fromhex(case["eps"])
        memoise_solver()
        base = run_phase(N, W, [S], case["lambda"], 0).clusters[0].train_inverse
        got = run_phase(N, W, [S], case["lambda"], eps).clusters[0].train_inverse
        want = np.where(np.abs(base) >= eps, base, 0.0)
        ctx.cov["evaluations"] = 1
        if got.tobytes() != want.tobytes():
            ctx.violation(case, f"eps={eps!r}: floored matrix differs from reference filter")
    else:
        ml.replay_case(ctx, case, MONS, conform=False)
