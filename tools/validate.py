#!/opt/veriftools/pyvenv/bin/python
"""Validate MANIFEST.json and every evidence file against the schemas."""
import json, sys, glob, os
import jsonschema
HERE = os.path.dirname(os.path.dirname(os.path.abspath(__file__)))
ok = True
man = json.load(open(os.path.join(HERE, "MANIFEST.json")))
jsonschema.validate(man, json.load(open("/root/.vp/MANIFEST.schema.json")))
es = json.load(open("/root/.vp/EVIDENCE.schema.json"))
for c in man["checks"]:
    p = c["evidence_file"]
    if not os.path.exists(p):
        print("missing", p); ok = False; continue
    ev = json.load(open(p))
    try:
        jsonschema.validate(ev, es)
    except jsonschema.ValidationError as e:
        print("INVALID", p, e.message); ok = False; continue
    if ev["level"] != c["level_claimed"]["category"]:
        print("LEVEL MISMATCH", p, ev["level"], c["level_claimed"]["category"]); ok = False
    print("ok", p, ev["tier"], ev["level"], ev["coverage"].get("evaluations"), ev["coverage"].get("distinct_nontrivial"), ev.get("violations"), ev["wall_s"])
sys.exit(0 if ok else 1)
