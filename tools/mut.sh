#!/bin/bash
# tools/mut.sh "<checks>" <file-under-src/fast_ticc> '<python expr: s -> s>'  : run checks against a mutated scratch copy
# e.g. tools/mut.sh "C09 C01" main_loop.py 's.replace("a","b")'
checks="$1"; file="$2"; expr="$3"
d=$(mktemp -d /tmp/mut_XXXXXX)
cp -r /repo/src "$d/"
python3 - "$d/src/fast_ticc/$file" "$expr" <<'PY'
import sys
p, expr = sys.argv[1], sys.argv[2]
s = open(p).read()
t = eval(expr)
assert t != s, "mutation did not change the file"
open(p, "w").write(t)
PY
[ $? -eq 0 ] || { rm -rf "$d"; exit 3; }
for c in $checks; do
  start=$(date +%s)
  VERIF_REPO="$d" /verif/check $c ${TIER:+--tier $TIER} > "$d/out.txt" 2> "$d/err.txt"; rc=$?
  echo "== $c rc=$rc ($(( $(date +%s) - start ))s)"; head -3 "$d/out.txt"; grep -v Warning "$d/err.txt" | head -4
done
rm -rf "$d"
