#!/usr/bin/env python3
"""Regenerate MANIFEST.json from the table below (only checks whose module
exists are claimed; the rest go to not_applicable until they are built)."""
import json
import os

HERE = os.path.dirname(os.path.dirname(os.path.abspath(__file__)))

E1 = "E1 small-scope enumerator"
E2 = "E2 main-loop explorer"
E3 = "E3 operation-sequence explorer"
E4 = "E4 schedule/fault enumerator"

CHECKS = {
    "C01": dict(engine=E1, cat="exploration", ref="§4 C01",
                technique="exhaustive small-scope enumeration of cost tables x switching costs against brute force over all K^T sequences (interpreted and JIT kernel)",
                text="Every cost table over small integer alphabets up to T*K<=8 (+5x2; thorough T*K<=12) x every switching cost in the menu is run through the real kernel, interpreted and JIT-compiled, and compared exactly with brute force over all K^T sequences. Bounded-exhaustive: complete below the bound, silent above it.",
                note="trusted: NumPy integer-valued float arithmetic is exact; the brute-force oracle; inputs above the size bound and non-integer costs are not covered here (C09/C07 cover real-valued tables by objective comparison)"),
}

NOT_YET = "check not built yet in this session (work in progress; see DESIGN.md)"


def main():
    props = [json.loads(l)["id"] for l in open(os.path.join(HERE, "properties.jsonl"))]
    checks = []
    na = []
    for pid in props:
        meta = CHECKS.get(pid)
        if meta is None or not os.path.exists(os.path.join(HERE, "checks", pid.lower() + ".py")):
            na.append({"property_id": pid, "reason": NOT_YET})
            continue
        checks.append({
            "property_id": pid,
            "quick_cmd": f"./check {pid} --tier quick",
            "thorough_cmd": f"./check {pid} --tier thorough",
            "evidence_file": f"/verif/evidence/{pid}.json",
            "replay_cmd_template": f"./check {pid} --replay {{path}}",
            "engine": meta["engine"],
            "level_claimed": {"category": meta["cat"], "text": meta["text"], "design_ref": meta["ref"]},
            "level_note": meta["note"],
            "technique": meta["technique"],
        })
    engines = [
        {"name": E1, "path": "vlib/ctx.py, vlib/refs.py, checks/",
         "kind_free_text": "complete enumeration of every input over a finite alphabet up to a size bound, real code vs. reference model, sharded over 16 forked workers"},
        {"name": E2, "path": "vlib/mainloop.py",
         "kind_free_text": "explicit-state model of the TICC main loop (transition table built by the real phase functions on fresh states) + conformance replay of every model trace against the real fit_stacked_data under scripted seams"},
        {"name": E3, "path": "vlib/opseq.py",
         "kind_free_text": "BFS over sequences of model-state operations on real objects, deduplicated on content+aliasing digest"},
        {"name": E4, "path": "vlib/seams.py",
         "kind_free_text": "enumeration of pool completion orders, worker counts, call histories and fault points on virtual and real multiprocessing pools"},
    ]
    for e in engines:
        e["serves_properties"] = [c["property_id"] for c in checks if c["engine"] == e["name"]]
    man = {
        "version": 1,
        "setup_cmd": "chmod +x /verif/check && /venv/bin/python -c \"import numpy, numba, sklearn\"",
        "hooks": {
            "guard": "FAST_TICC_VERIF",
            "enable": "no source hooks: the harness substitutes recording/scripted objects at module attributes of the package imported from $VERIF_REPO/src (default /repo/src); ./check exports FAST_TICC_VERIF=1 but nothing in /repo reads it",
            "baseline_off_cmd": "cd /repo && /venv/bin/python -m pytest -ra -q -p no:cacheprovider --timeout=900 --continue-on-collection-errors",
            "source_commits": [],
            "add_only": True,
        },
        "engines": engines,
        "checks": checks,
        "notes": "All checks run the real code from /repo/src in a fresh interpreter (pure-Python package: no build step). VERIF_REPO may point the same commands at a scratch copy. See DESIGN.md.",
        "not_applicable": na,
    }
    with open(os.path.join(HERE, "MANIFEST.json"), "w") as f:
        json.dump(man, f, indent=1)
        f.write("\n")
    print(f"claimed {len(checks)}, not yet {len(na)}")


if __name__ == "__main__":
    main()
