#!/usr/bin/env python3
"""Regenerate MANIFEST.json from the table below (only checks whose module
exists are claimed; the rest go to not_applicable until they are built)."""
import json
import os

HERE = os.path.dirname(os.path.dirname(os.path.abspath(__file__)))

E1 = "E1 small-scope enumerator"
E2 = "E2 main-loop explorer"
E3 = "E3 operation-sequence explorer"
E4 = "E4 schedule/fault enumerator"

CHECKS = {
    "C01": dict(engine=E1, cat="exploration", ref="§4 C01",
                technique="exhaustive small-scope enumeration of cost tables x switching costs against brute force over all K^T sequences (interpreted and JIT kernel)",
                text="Every cost table over small integer alphabets ({0,1,3}, {-2,0,3}, {0,1,1e14}) up to T*K<=8 (+5x2; thorough T*K<=12) x every switching cost in the menu (scalars incl. 0.5 in three numeric types, every vector over {0,2}^T and {0,1,5}^T), float64 C/F-ordered and int64/float32/int32 tables, through the real kernel interpreted and JIT-compiled, compared exactly with brute force over all K^T sequences; a one-hot family up to T=10 (thorough 14) against a forward DP; and call sequences with the same K and varying T in one process. Bounded-exhaustive: complete below the bound, silent above it.",
                note="trusted: NumPy integer-valued float arithmetic is exact; the brute-force oracle; inputs above the size bound and non-integer costs are not covered here (C09/C07 cover real-valued tables by objective comparison)"),
    "C09": dict(engine=E2, cat="model_checking", ref="§3.2, §4 C09",
                technique="explicit-state model of the main loop (fresh-state transition table) + conformance replay of every trace against the real fit_stacked_data under scripted initial labelling / donor draw / pool, plus exhaustive exploration of the loop's control skeleton over scripted relabel outputs",
                text="Every initial labelling (K^T') x iteration limit x donor script within the deviation bound is run through the real main loop with scripted seams; each run is checked for round bounds, phase order and chaining, repopulation timing, stop-only-at-fixed-point, returned == last round's scored labelling/cost/MRFs, optimality of the returned labelling under the returned model (reference DP on an independently computed likelihood table), and bitwise conformance of the whole label path with the fresh-state model. In addition the relabel phase's output is treated as an environment answer: every label sequence over a 5-labelling alphabet (incl. an emptied and a singleton cluster) up to the iteration limit (4; thorough 6) x two donor draws is run through the real loop, deciding the stop rule, repopulation timing and what is returned independently of the data.",
                note="trusted: the seams are the only nondeterminism (RNG states verified untouched); the reference Gaussian log-density and DP; driver data sets are tiny (T'<=10, NW<=4), larger inputs are not covered"),
    "C12": dict(engine=E2, cat="model_checking", ref="§4 C12",
                technique="main-loop explorer with a statistics/optimiser-argument monitor against a two-pass fsum reference, on every round of every enumerated run",
                text="On every round and cluster of every enumerated run (incl. post-repopulation rounds, biased and unbiased, scalar and matrix lambda) the statistics-phase output equals the reference mean/covariance of exactly the windows labelled k, the optimiser is called with that covariance, the user's lambda, W and N, and the stored MRF is the optimiser's answer for that cluster; drivers include 1e-4 / 1e3 scaled data, a large additive offset, a biting covariance floor, and three different problems run back to back in one process from the same initial labelling.",
                note="trusted: reference statistics (math.fsum two-pass); singleton clusters under the unbiased estimator are skipped (undefined)"),
    "C13": dict(engine=E3, cat="model_checking", ref="§3.3, §4 C13",
                technique="BFS over operation histories on real ModelState objects (assign via copy idiom, direct assignment on owned states, deep/shallow copy, repopulate, statistics, optimise, relabel; dedup on content+aliasing digest) with invariants on every live object, plus the same invariants at every phase boundary of enumerated and control-skeleton main-loop runs",
                text="All operation sequences up to depth 6 (thorough 8) over assign/copy/repopulate/statistics/optimise/relabel on real objects: partition invariant on every state produced, every earlier live state unchanged by every operation, deep copies independent under mutation of every mutable component; and the same at every phase boundary of every E2 run.",
                note="trusted: the digest covers every field of ModelState/ClusterParameters/UserArguments listed in seams.py; a new mutable field would need adding"),
    "C10": dict(engine=E1, cat="exploration", ref="§4 C10",
                technique="complete enumeration of (T,W,N) and series-length tuples with injectively numbered bit patterns (NaN payloads, all-NaN rows, all-zero series), compared as uint64, plus call sequences in one process",
                text="Complete over the ranges in the property: all 2952 (T,W,N) triples with distinct bit patterns per cell (NaN payloads, inf, -0.0, denormals), all tuples of 1..6 series lengths for the joint form, split/pad round trip.",
                note="trusted: NumPy views for bit comparison"),
    "C11": dict(engine=E1, cat="exploration", ref="§4 C11",
                technique="complete enumeration of n<=150 (ascending, descending and interleaved within one process) and all (N,W) with N<=10, W<=14 against definition-level index maps, plus history independence: every shape used first in a fresh process, all related shapes re-checked",
                text="The property's quantifier is finite and is enumerated completely: compression round trips and closed-form index for n<=150, class partition for all 140 (N,W).",
                note="trusted: reference maps written from the definition in refs.py"),
    "C02": dict(engine=E1, cat="exploration", ref="§4 C02",
                technique="exhaustive spectral-grid enumeration of (S, lambda, step configuration) through the real ADMM entry point, judged by a rho-independent KKT certificate",
                text="Every covariance S=Q diag(e) Q^T over the eigenvalue alphabet {0.25,1,4} (+ rank-deficient and rescaled families) x 3 bases x 9 lambda forms x 4 step configurations for all (N,W) with NW<=4 (thorough NW<=12 plus five large shapes up to NW=60): each solve that stopped by its rule must satisfy the KKT/Toeplitz/SPD certificate computed from (S, lambda, Theta, tolerances) alone; the unconditional clause (always stops within budget) is a verdict on its sub-grid.",
                note="trusted: the certificate derivation in DESIGN.md C02 (strict convexity => KKT = optimality), slack 1.5; finite grid, not the reals; cond(Theta)<=1e8 for the certificate"),
    "C03": dict(engine=E1, cat="exploration", ref="§4 C03",
                technique="exhaustive per-sensor scale grid (24 orders of magnitude) through the real optimisation phase + exhaustive covariance-floor boundaries + main-loop explorer monitor",
                text="Every tuple of per-sensor variances over the scale alphabet x 4 correlation structures (incl. exactly singular and constant sensor) x 4 lambdas through the real optimisation phase: finite, exactly symmetric, Cholesky-PD MRF with a finite, correct stored log-determinant; eps clause on every entry boundary; every MRF and float field of enumerated main-loop runs incl. data with sensor variances 1e-12..1e12.",
                note="trusted: numpy Cholesky as PD oracle; singleton clusters under the unbiased estimator scoped out (DESIGN.md C03c)"),
    "C05": dict(engine=E1, cat="exploration", ref="§4 C05",
                technique="exhaustive kernel grid (NW 1..200, log-determinants -3000..3000, all small mean/point tuples) against a Cholesky log-density, interpreted and JIT, + main-loop explorer monitor",
                text="Likelihood table and per-point functions on synthetic models over the grid, in both execution modes, vs an independent Cholesky log-density (1e-10 relative to the summed magnitudes, must be finite); every round's table at the labelling step and the result's per-point values on enumerated runs.",
                note="trusted: reference log-density; grid is finite"),
    "C06": dict(engine=E2, cat="model_checking", ref="§4 C06",
                technique="main-loop explorer (all initial labellings x limits x donor scripts, both front ends) with a result-only accounting monitor; known-finding classification by signature",
                text="On every enumerated completed run of both front ends (beta 0 / moderate / huge / per-pair; limit 1,2,L; runs ending with an empty cluster) the result's cost, per-point list, sums, means, medians and per-cluster statistics are mutually consistent. Joint runs whose cost prices boundary pairs exactly as the all-pairs objective are the listed known finding.",
                note="trusted: reference Gaussian log-density for the per-cluster clause; runs with NaN values (singleton cluster, unbiased) skipped and counted"),
    "C07": dict(engine=E2, cat="model_checking", ref="§4 C07",
                technique="exhaustive enumeration of the mask helper (5460 length tuples, behavioural cross-check through the real kernel) + main-loop explorer on joint drivers with a within-series-objective monitor + single-vs-joint differential",
                text="Mask helper complete over its bound; joint front end on boundary-regime drivers for every initial labelling: labelling minimises / cost equals assignment + within-series switching cost, else classified (known finding only if it is exactly the all-pairs objective with the user's scalar reaching the labelling step); one-element joint == single front end bitwise.",
                note="trusted: reference DP; the no-mixing clause is decided by C10"),
    "C08": dict(engine=E1, cat="exploration", ref="§4 C08",
                technique="exhaustive enumeration of cluster-size vectors x spread orderings x layouts x donor draws against a reference repopulation model, plus fed-back histories",
                text="Every size vector in {0..3m+2}^K for K<=4 (thorough K<=5) x every strict spread ordering + ties x two layouts x donor draws; outcome must be the reference's (error with untouched input, or conservation/donor/recipient/bystander invariants and partition), also under 3-fold repeated application.",
                note="trusted: reading of the donor-shortage clause (DESIGN.md C08); larger random size vectors named in the quantifier are not sampled (this family enumerates)"),
    "C16": dict(engine=E1, cat="exploration", ref="§4 C16",
                technique="exhaustive enumeration of label sequences (length<=8, K<=3) and threshold-boundary MRFs at function level + scale family + main-loop explorer monitor",
                text="BIC function on synthetic states for every label sequence up to length 8, MRF entries on/around the 2e-5 threshold, determinants outside the double range; reported BIC of every enumerated run vs recomputation from the final state.",
                note="trusted: reference formula in refs.py"),
    "C17": dict(engine=E1, cat="exploration", ref="§4 C17",
                technique="exhaustive enumeration of labellings (T'<=6/8, K in {2,3}) x per-sensor translations at function level + main-loop explorer monitor; known-finding classification by signature",
                text="Every labelling into non-empty clusters on integer data sets and their per-sensor translations vs the definition with the per-column centroid; converged enumerated runs. Mismatches equal to the scalar-centre formula are the listed known finding; anything else is a violation.",
                note="trusted: reference formula; known finding ch-scalar-centre is suppressed by signature only"),
    "C04": dict(engine=E1, cat="exploration", ref="§4 C04",
                technique="exhaustive enumeration of (N,W,K,series-length tuples in every order) through both real front ends under scripted seams, plus default-path runs; oracle on the result object only",
                text="Every (N,W,K) with N<=3, W<=6, K in {2,3} x three lengths (single) and every ordered tuple of up to 3 (thorough up to 6) unequal-length series (joint): label count, exact -1 margins for odd and even W, label range, MRF count and shape, echoed K and W, per-series lists equal to their slice of the joint labelling.",
                note="trusted: scripted contiguous initial labelling so that runs complete; runs that raise are counted, not judged"),
    "C14": dict(engine=E4, cat="exploration", ref="§3.4, §4 C14",
                technique="enumeration of pool schedules (completion permutation x finished-prefix per round) on a virtual pool AND on the real multiprocessing.Pool (turn-taking handshake with a per-round allowance), worker counts 1..8 x multiprocessing on/off incl. a probe with distinct cluster sizes, same-seed repeats incl. a repopulating probe, and all call histories up to depth h (6 call shapes incl. in-process solver calls and the same data from another seed) in fresh processes; bitwise result comparison",
                text="Every schedule script within the stated bound on the virtual pool; every feasible completion permutation for num_processors 1..8 with multiprocessing off/on on the real pool; same-seed repeats in and across processes; every history of up to 2 (thorough 3) preceding calls from 4 call shapes. Complete results must be bit-identical to the single-pool reference.",
                note="trusted: a schedule whose arrival log differs from its script is a harness error; task-to-worker assignment observed not forced; BLAS pinned to one thread"),
    "C18": dict(engine=E1, cat="exploration", ref="§4 C18",
                technique="exhaustive enumeration of equivalent parameter forms at the optimiser entry point (spectral grid), the labelling step (all small tables) and end to end (all initial labellings), bitwise comparison",
                text="Scalar vs constant-matrix lambda and every exact numeric type at the optimiser over the spectral grid; scalar vs constant-vector beta and numeric types over every table with T*K<=6; lambda/beta/eps in every equivalent form through ticc_labels for every 2nd (thorough: every) initial labelling of the smallest driver: complete results bitwise equal.",
                note="trusted: dyadic values make scalar*R and the R-fold sum exactly equal; non-dyadic lambda compared at 1e-9 relative"),
    "C19": dict(engine=E1, cat="exploration", ref="§4 C19",
                technique="enumeration of entry point x argument form x writability x memory order x outcome (incl. injected faults) x execution mode with byte-wise before/after snapshots",
                text="All five entry points, every array-valued argument, writable and read-only, C and Fortran order, success and four failure outcomes, eps 0/1e-2, interpreted and JIT: arguments byte-identical afterwards, read-only variants return the same result.",
                note="trusted: snapshots cover bytes, shape, strides, flags and list identity; the enumeration is over forms, data values are fixed"),
    "C15": dict(engine=E4, cat="exploration", ref="§3.5, §4 C15",
                technique="mode runner: the same exhaustively enumerated kernel inputs and scripted complete runs executed in separate JIT / JIT-disabled / numba-absent processes and at numba thread counts 1..16, compared case by case; parallel-loop iteration order permuted exhaustively in interpreted modes",
                text="Every small table through the labelling kernel, the likelihood table over shapes x memory layouts, and complete scripted runs for every 4th (thorough: every) initial labelling are computed in three execution modes and five thread counts and must agree (labels and integer costs identically, likelihoods within rounding and with the reference); iteration-order independence of the parallel loop is enumerated over all permutations for T<=5.",
                note="trusted: interleaving inside numba's compiled parallel loop is not controlled (thread count and iteration order are)"),
    "C20": dict(engine=E4, cat="fault_enumeration", ref="§3.4, §4 C20",
                technique="fault enumeration: exceptions of 14 classes (incl. argument-less ones) injected at every (round, cluster) optimisation task and every (round, phase) on real and virtual pools in three pool modes, donor shortage (none / partial), wrong-kind inputs in four container types; each scenario in a fresh process with a repeating watchdog (a hang is a verdict), /proc child scan while the exception is held, and a clean follow-up call",
                text="Every fault point r<3 x k<3 x {Pool(1), multiprocessing P=K, P=2, virtual pool}, every phase x round, no-donor and wrong-kind inputs: the call raises the expected error (type and message), returns nothing, does not hang, leaves no live worker while the exception is referenced, and a clean call afterwards equals the clean reference bitwise.",
                note="trusted: /proc scan for live children; workers killed outright are out of scope (CPython Pool blocks forever)"),
}

NOT_YET = "check not built yet in this session (work in progress; see DESIGN.md)"


def main():
    props = [json.loads(l)["id"] for l in open(os.path.join(HERE, "properties.jsonl"))]
    checks = []
    na = []
    for pid in props:
        meta = CHECKS.get(pid)
        if meta is None or not os.path.exists(os.path.join(HERE, "checks", pid.lower() + ".py")):
            na.append({"property_id": pid, "reason": NOT_YET})
            continue
        checks.append({
            "property_id": pid,
            "quick_cmd": f"./check {pid} --tier quick",
            "thorough_cmd": f"./check {pid} --tier thorough",
            "evidence_file": f"/verif/evidence/{pid}.json",
            "replay_cmd_template": f"./check {pid} --replay {{path}}",
            "engine": meta["engine"],
            "level_claimed": {"category": meta["cat"], "text": meta["text"], "design_ref": meta["ref"]},
            "level_note": meta["note"],
            "technique": meta["technique"],
        })
    engines = [
        {"name": E1, "path": "vlib/ctx.py, vlib/refs.py, checks/",
         "kind_free_text": "complete enumeration of every input over a finite alphabet up to a size bound, real code vs. reference model, sharded over 16 forked workers"},
        {"name": E2, "path": "vlib/mainloop.py",
         "kind_free_text": "explicit-state model of the TICC main loop (transition table built by the real phase functions on fresh states) + conformance replay of every model trace against the real fit_stacked_data under scripted seams"},
        {"name": E3, "path": "vlib/opseq.py",
         "kind_free_text": "BFS over sequences of model-state operations on real objects, deduplicated on content+aliasing digest"},
        {"name": E4, "path": "vlib/seams.py",
         "kind_free_text": "enumeration of pool completion orders, worker counts, call histories and fault points on virtual and real multiprocessing pools"},
    ]
    for e in engines:
        e["serves_properties"] = [c["property_id"] for c in checks if c["engine"] == e["name"]]
    man = {
        "version": 1,
        "setup_cmd": "chmod +x /verif/check /verif/tools/*.sh /verif/tools/*.py && mkdir -p /verif/replays /verif/evidence && /venv/bin/python -c \"import numpy, numba, sklearn\"",
        "hooks": {
            "guard": "FAST_TICC_VERIF",
            "enable": "no source hooks: the harness substitutes recording/scripted objects at module attributes of the package imported from $VERIF_REPO/src (default /repo/src); ./check exports FAST_TICC_VERIF=1 but nothing in /repo reads it",
            "baseline_off_cmd": "cd /repo && /venv/bin/python -m pytest -ra -q -p no:cacheprovider --timeout=900 --continue-on-collection-errors",
            "source_commits": [],
            "add_only": True,
        },
        "engines": engines,
        "checks": checks,
        "notes": "All checks run the real code from /repo/src in a fresh interpreter (pure-Python package: no build step). VERIF_REPO may point the same commands at a scratch copy. See DESIGN.md.",
        "not_applicable": na,
    }
    with open(os.path.join(HERE, "MANIFEST.json"), "w") as f:
        json.dump(man, f, indent=1)
        f.write("\n")
    print(f"claimed {len(checks)}, not yet {len(na)}")


if __name__ == "__main__":
    main()
