#!/usr/bin/env python3
"""Re-run quick checks against a recorded seeded change (scratch copy of /repo/src + patch) and update meta.json.
usage: seed_recheck.py <id> [check ...] [--note "..."]"""
import json, os, shutil, subprocess, sys, tempfile, time
VERIF = os.path.dirname(os.path.dirname(os.path.abspath(__file__)))
args = sys.argv[1:]
note = None
if "--note" in args:
    i = args.index("--note"); note = args[i + 1]; del args[i:i + 2]
sid = args[0]
d = os.path.join(VERIF, "seeded", sid)
meta = json.load(open(os.path.join(d, "meta.json")))
checks = args[1:] or [meta["breaks_property"]]
tmp = tempfile.mkdtemp(prefix="seedre_", dir="/tmp")
try:
    shutil.copytree("/repo/src", os.path.join(tmp, "src"))
    subprocess.check_call(["patch", "-s", "-p1", "-i", os.path.join(d, "patch.diff")], cwd=tmp)
    for c in checks:
        t0 = time.time()
        p = subprocess.run(["./check", c, "--tier", "quick"], cwd=VERIF, env=dict(os.environ, VERIF_REPO=tmp),
                           capture_output=True, text=True)
        why = [l.strip() for l in p.stderr.splitlines() if l.startswith("  " + c)][:3]
        prev = meta["ran"].get(f"check_{c}_quick")
        if prev and prev.get("rc") != p.returncode:
            meta.setdefault("earlier_results", []).append({f"check_{c}_quick": prev})
        meta["ran"][f"check_{c}_quick"] = {"rc": p.returncode, "violations": p.stdout.count("VIOLATION"),
                                          "first": why, "s": round(time.time() - t0, 1)}
        print(sid, c, "rc=", p.returncode, why[:1])
    meta["detected_by"] = sorted(k[6:-6] for k, v in meta["ran"].items() if k.startswith("check_") and v.get("rc") == 1)
    if note:
        meta["history"] = (meta.get("history", "") + " " + note).strip()
    json.dump(meta, open(os.path.join(d, "meta.json"), "w"), indent=1)
finally:
    shutil.rmtree(tmp, ignore_errors=True)
