#!/usr/bin/env python3
"""Rewrite the table of seeded changes in DESIGN.md (between the SEED-TABLE markers) from seeded/*/meta.json."""
import glob, json, os, re
HERE = os.path.dirname(os.path.dirname(os.path.abspath(__file__)))
rows = ["| id | needs in order to manifest | caught by | first try |", "|---|---|---|---|"]
n = det = 0
for f in sorted(glob.glob(os.path.join(HERE, "seeded", "C*", "meta.json"))):
    m = json.load(open(f))
    n += 1
    det += bool(m.get("detected_by"))
    if m.get("pre_strengthened"):
        first = "yes †"
    elif m.get("earlier_results") or (m.get("history") and "first evaluation" in m["history"]):
        first = "no → strengthened"
    else:
        first = "yes"
    if not m.get("detected_by"):
        first = "**NOT DETECTED**"
    needs = m.get("needs_to_manifest", "").replace("|", "\\|")
    rows.append(f"| {m['id']} | {needs} | {', '.join(m.get('detected_by', []))} | {first} |")
rows.append("")
rows.append(f"({n} changes, {det} reported by at least one quick check.)")
p = os.path.join(HERE, "DESIGN.md")
s = open(p).read()
s = re.sub(r"<!-- SEED-TABLE-BEGIN -->.*<!-- SEED-TABLE-END -->",
           "<!-- SEED-TABLE-BEGIN -->\n" + "\n".join(rows) + "\n<!-- SEED-TABLE-END -->", s, flags=re.S)
open(p, "w").write(s)
print(n, det)
