#!/usr/bin/env python3
"""Rewrite the as-built coverage table in DESIGN.md (between ASBUILT markers) from evidence/*.json."""
import glob, json, os, re
HERE = os.path.dirname(os.path.dirname(os.path.abspath(__file__)))
rows = ["| id | level | tier/seed | evaluations | non-trivial | states / transitions / traces | wall s |", "|---|---|---|---|---|---|---|"]
for f in sorted(glob.glob(os.path.join(HERE, "evidence", "C*.json"))):
    e = json.load(open(f)); c = e["coverage"]
    st = "–"
    if "states" in c:
        st = f"{c['states']} / {c['transitions']} / {c.get('traces_validated_against_impl', 0)}"
    rows.append(f"| {e['property_id']} | {e['level']} | {e['tier']}/{e['seed']} | {c.get('evaluations')} | {c.get('distinct_nontrivial')} | {st} | {e['wall_s']} |")
p = os.path.join(HERE, "DESIGN.md")
s = open(p).read()
block = "<!-- ASBUILT-BEGIN -->\n" + "\n".join(rows) + "\n<!-- ASBUILT-END -->"
if "<!-- ASBUILT-BEGIN -->" in s:
    s = re.sub(r"<!-- ASBUILT-BEGIN -->.*<!-- ASBUILT-END -->", block, s, flags=re.S)
else:
    s += ("\n\n### 9.8 As-built coverage of the committed evidence (what each check enumerated; the `rule` field of "
          "each evidence file states the alphabet and bounds in words)\n" + block + "\n")
open(p, "w").write(s)
print(len(rows) - 2)
