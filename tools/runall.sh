#!/bin/bash
# run every quick (or $1=thorough) check on /repo, report rc and time, validate evidence
cd /verif
tier=${1:-quick}
for p in $(python3 -c "import json; print(' '.join(c['property_id'] for c in json.load(open('MANIFEST.json'))['checks']))"); do
  s=$(date +%s); out=$(./check $p --tier $tier 2>/tmp/runall_$p.err); rc=$?
  echo "$p rc=$rc $(( $(date +%s) - s ))s $(echo "$out" | grep -c VIOLATION) violations $(echo "$out" | grep -c KNOWN-FINDING) known"
done
python3-vt tools/validate.py | grep -v "^ok" ; echo validate=$?
