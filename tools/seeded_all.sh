#!/bin/bash
# Re-run the target quick check of every seeded change against a scratch copy with the patch applied.
# usage: tools/seeded_all.sh [id ...]   (default: all)   ; prints one line per seeded change
cd /verif
ids="$@"; [ -z "$ids" ] && ids=$(ls seeded)
for id in $ids; do
  [ -f seeded/$id/patch.diff ] || continue
  prop=$(python3 -c "import json; print(json.load(open('seeded/$id/meta.json'))['breaks_property'])")
  checks=$(python3 -c "import json; m=json.load(open('seeded/$id/meta.json')); print(' '.join(m.get('detected_by') or [m['breaks_property']]))")
  d=$(mktemp -d /tmp/seedrun_XXXXXX); cp -r /repo/src $d/
  if ! (cd $d && patch -s -p1 < /verif/seeded/$id/patch.diff); then echo "$id PATCH-FAILED"; rm -rf $d; continue; fi
  for c in $checks; do
    s=$(date +%s); VERIF_REPO=$d ./check $c ${TIER:+--tier $TIER} > $d/out.txt 2> $d/err.txt; rc=$?
    echo "$id ($prop) check=$c rc=$rc $(( $(date +%s) - s ))s $(grep -m1 "^  $c" $d/err.txt | cut -c1-140)"
  done
  rm -rf $d
done
