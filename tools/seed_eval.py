#!/usr/bin/env python3
"""Confirm a seeded change and record it under /verif/seeded/<id>/.

usage: seed_eval.py <id> <property> <patch> <demo.py> [--needs "..."] [--checks "C01 C09"] [--skip-tests]

In a scratch worktree of /repo (outside /repo and /verif, removed afterwards):
  1. apply the patch, run the repository's own test suite (must stay green),
  2. run the demonstration with the patch (must fail) and without (must pass),
  3. run the named quick checks against the patched tree (VERIF_REPO=<scratch>),
then write patch.diff, demo.py and meta.json.
"""
import argparse
import json
import os
import shutil
import subprocess
import sys
import tempfile
import time

VERIF = os.path.dirname(os.path.dirname(os.path.abspath(__file__)))


def sh(cmd, cwd=None, env=None, timeout=3600):
    e = dict(os.environ)
    if env:
        e.update(env)
    p = subprocess.run(cmd, shell=True, cwd=cwd, env=e, capture_output=True, text=True, timeout=timeout)
    return p.returncode, p.stdout, p.stderr


def main():
    ap = argparse.ArgumentParser()
    ap.add_argument("id")
    ap.add_argument("prop")
    ap.add_argument("patch")
    ap.add_argument("demo")
    ap.add_argument("--needs", default="")
    ap.add_argument("--checks", default=None)
    ap.add_argument("--skip-tests", action="store_true")
    ap.add_argument("--source", default="sub-agent")
    ns = ap.parse_args()
    checks = (ns.checks or ns.prop).split()
    wt = tempfile.mkdtemp(prefix=f"seedeval_{ns.id}_", dir="/tmp")
    os.rmdir(wt)
    meta = {"id": ns.id, "breaks_property": ns.prop, "needs_to_manifest": ns.needs, "source": ns.source, "ran": {}}
    try:
        rc, o, e = sh(f"git -C /repo worktree add -q --detach {wt} HEAD")
        assert rc == 0, e
        meta["repo_head"] = sh("git -C /repo rev-parse --short HEAD")[1].strip()
        rc, o, e = sh(f"git -C {wt} apply --whitespace=nowarn {os.path.abspath(ns.patch)}")
        if rc != 0:
            print("PATCH DOES NOT APPLY:", e)
            meta["ran"]["apply"] = "failed: " + e[:300]
            return 2
        env = {"PYTHONPATH": f"{wt}/src", "NUMBA_DISABLE_JIT": "1", "OMP_NUM_THREADS": "1"}
        shutil.copy(ns.demo, os.path.join(wt, "_demo.py"))
        t0 = time.time()
        rc_with, o, e = sh("/venv/bin/python _demo.py", cwd=wt, env=env, timeout=900)
        meta["ran"]["demo_with_patch"] = {"rc": rc_with, "tail": (o + e)[-400:], "s": round(time.time() - t0, 1)}
        print(f"demo with patch: rc={rc_with}")
        # checks against the patched tree
        for c in checks:
            t0 = time.time()
            rc, o, e = sh(f"./check {c} --tier quick", cwd=VERIF, env={"VERIF_REPO": wt}, timeout=3600)
            lines = [l for l in o.splitlines() if l.startswith(("VIOLATION", "KNOWN-FINDING", "HARNESS"))]
            why = [l.strip() for l in e.splitlines() if l.startswith("  " + c)][:3]
            meta["ran"][f"check_{c}_quick"] = {"rc": rc, "violations": sum(l.startswith("VIOLATION") for l in lines),
                                               "first": why, "s": round(time.time() - t0, 1)}
            print(f"check {c}: rc={rc} {len(lines)} lines; {why[:1]}")
        if not ns.skip_tests:
            t0 = time.time()
            rc, o, e = sh("/venv/bin/python -m pytest -q -p no:cacheprovider --timeout=900 "
                          "--continue-on-collection-errors 2>&1 | tail -3", cwd=wt,
                          env={"PYTHONPATH": f"{wt}/src"}, timeout=3600)
            meta["ran"]["test_suite_with_patch"] = {"summary": o.strip().splitlines()[-1] if o.strip() else "",
                                                    "s": round(time.time() - t0, 1)}
            print("tests:", meta["ran"]["test_suite_with_patch"]["summary"])
        sh(f"git -C {wt} checkout -- .")
        rc_without, o, e = sh("/venv/bin/python _demo.py", cwd=wt, env=env, timeout=900)
        meta["ran"]["demo_without_patch"] = {"rc": rc_without, "tail": (o + e)[-200:]}
        print(f"demo without patch: rc={rc_without}")
        tests_ok = ns.skip_tests or "31 passed" in meta["ran"]["test_suite_with_patch"]["summary"]
        meta["confirmed"] = bool(tests_ok and rc_with != 0 and rc_without == 0)
        meta["detected_by"] = [c for c in checks if meta["ran"][f"check_{c}_quick"]["rc"] == 1]
    finally:
        sh(f"git -C /repo worktree remove --force {wt}")
        shutil.rmtree(wt, ignore_errors=True)
    d = os.path.join(VERIF, "seeded", ns.id)
    os.makedirs(d, exist_ok=True)
    shutil.copy(ns.patch, os.path.join(d, "patch.diff"))
    shutil.copy(ns.demo, os.path.join(d, "demo.py"))
    with open(os.path.join(d, "meta.json"), "w") as f:
        json.dump(meta, f, indent=1)
        f.write("\n")
    print("confirmed:", meta["confirmed"], "detected_by:", meta["detected_by"])
    return 0


if __name__ == "__main__":
    sys.exit(main())
