import os, time, sys
mode=sys.argv[1]
if mode=="nojit": os.environ["NUMBA_DISABLE_JIT"]="1"
if mode=="absent": sys.modules['numba']=None
t=time.time()
import numpy as np
from fast_ticc import cluster_label_assignment as cla, likelihood, numba_guard
print(mode,"import %.2fs"%(time.time()-t),"NUMBA_AVAILABLE",numba_guard.NUMBA_AVAILABLE)
a=np.array([[3.,1.],[0.,5.],[2.,2.]])
for beta in [2.0, np.array([2.0,0.0,1.0]), 2, np.float32(2)]:
    t=time.time(); r=cla.assign_point_cluster_labels(a,beta); print("  assign",type(beta).__name__,r,"%.2fs"%(time.time()-t))
t=time.time(); 
for i in range(1000): cla.assign_point_cluster_labels(a,2.0)
print("  1000 calls %.3fs"%(time.time()-t))
mus=np.zeros((2,4)); th=np.stack([np.eye(4),2*np.eye(4)]); ld=np.array([0.0,4*np.log(2)]); X=np.arange(20.).reshape(5,4)
t=time.time(); tab=likelihood.all_points_all_clusters_log_likelihood_fast(2,2,mus,th,ld,X); print("  table %.2fs"%(time.time()-t), tab[0])
if mode=="jit":
    import numba
    for n in [1,2,4,8,16]:
        numba.set_num_threads(n); tab2=likelihood.all_points_all_clusters_log_likelihood_fast(2,2,mus,th,ld,X); print("   threads",n,np.array_equal(tab,tab2))
    XF=np.asfortranarray(X); t=time.time(); tab3=likelihood.all_points_all_clusters_log_likelihood_fast(2,2,mus,th,ld,XF); print("  F-order %.2fs"%(time.time()-t), np.array_equal(tab,tab3))
