import os, time, sys
os.environ.setdefault("NUMBA_DISABLE_JIT","1")
import numpy as np, random, io, contextlib
from fast_ticc import front_end, main_loop, admm, cluster_label_assignment as cla, data_preparation as dp, graphical_lasso as gl
rng=np.random.default_rng(0)
def quiet(f,*a,**k):
    with contextlib.redirect_stdout(io.StringIO()):
        return f(*a,**k)
# C06 phantom zero
T,N,W,K=40,2,2,2
data=np.vstack([rng.normal(size=(T//2,N)), rng.normal(size=(T-T//2,N))*3+5])
np.random.seed(1)
r=quiet(front_end.ticc_labels,data,window_size=W,num_clusters=K,min_cluster_size=3,label_switching_cost=1e9,iteration_limit=1)
lab=[l for l in r.point_labels if l!=-1]
print("C06: labelled",len(lab),"set",set(map(int,lab)),"len all_ll",len(r.all_log_likelihood), "cluster means",r.cluster_log_likelihood_mean)
print("   cost",r.label_assignment_cost,"-oll",-r.overall_log_likelihood)
# C07: observe beta reaching labelling step
seen=[]
orig=cla.assign_point_cluster_labels
def spy(label_assignment_cost,label_switching_cost):
    seen.append(label_switching_cost); return orig(label_assignment_cost=label_assignment_cost,label_switching_cost=label_switching_cost)
cla.assign_point_cluster_labels=spy
s1=data[:22]; s2=data[18:]
np.random.seed(1)
r=quiet(front_end.ticc_joint_labels,[s1,s2],window_size=W,num_clusters=K,min_cluster_size=3,label_switching_cost=5.0,iteration_limit=2)
print("C07: beta seen at labelling step:",[type(b).__name__ for b in seen], seen[0] if np.isscalar(seen[0]) else seen[0][:5])
print("   template for lengths [3,2,4]:",dp.label_switching_cost_template([3,2,4]))
cla.assign_point_cluster_labels=orig
# C18 int lambda
for lam in [1, np.float32(0.5), np.float64(0.5), 0.5]:
    try:
        S=np.eye(4); res=admm.admm_optimize_theta(S,lam,2,2); print("C18 lam",type(lam).__name__,"ok")
    except Exception as e: print("C18 lam",type(lam).__name__,"->",type(e).__name__,str(e)[:60])
# C18 matrix vs scalar
S=np.cov(rng.normal(size=(30,4)).T)
a=admm.admm_optimize_theta(S,0.3,2,2).theta; b=admm.admm_optimize_theta(S,np.full((4,4),0.3),2,2).theta
print("C18 scalar vs matrix identical:",np.array_equal(a,b), np.max(np.abs(a-b)))
# C03: variance 1e9
for scale in [1e-12,1e-6,1,1e6,1e9,1e12]:
    S=np.diag([scale,1.0]); th=gl.matrix_compression.reinflate_matrix(admm.admm_optimize_theta(S,0.11,1,2).theta)
    ev=np.linalg.eigvalsh(th); print("C03 scale",scale,"eig",ev, "det",np.linalg.det(th))
# C05: NW=100 determinant underflow
n=100; th=np.eye(n)*1e-4
print("C05 log(det)",np.log(np.linalg.det(th)),"slogdet",np.linalg.slogdet(th))
