import os, io, contextlib, pickle, hashlib, random
os.environ["NUMBA_DISABLE_JIT"]="1"
import numpy as np
from fast_ticc import front_end, admm, main_loop, cluster_label_assignment as cla, cluster_maintenance as cm, graphical_lasso as gl, data_preparation as dp
from fast_ticc.containers import arguments, model_state
rng=np.random.default_rng(0)
# (b) scalar vs matrix lambda bitwise, W=10,N=1 and N=4
for (N,W,lam) in [(1,10,0.11),(2,6,0.11),(2,6,0.5),(1,10,0.1)]:
    n=N*W; S=np.cov(rng.normal(size=(5*n,n)).T)
    a=admm.admm_optimize_theta(S,lam,W,N).theta; b=admm.admm_optimize_theta(S,np.full((n,n),lam),W,N).theta
    print("C18 N,W,lam",N,W,lam,"bitwise",np.array_equal(a,b),"maxdiff",np.max(np.abs(a-b)))
# (c) reproducibility with real GMM
T,N,W,K=60,2,3,3
data=np.vstack([rng.normal(size=(20,N)), rng.normal(size=(20,N))*3+5, rng.normal(size=(20,N))*.5-4])
def run():
    np.random.seed(7); random.seed(7)
    with contextlib.redirect_stdout(io.StringIO()):
        r=front_end.ticc_labels(data,window_size=W,num_clusters=K,min_cluster_size=3,label_switching_cost=5.0)
    return hashlib.sha256(pickle.dumps((list(map(int,r.point_labels)),[m.tobytes() for m in r.markov_random_fields],float(r.label_assignment_cost),float(r.bayesian_information_criterion)))).hexdigest()[:16]
print("C14 repeat digests",[run() for _ in range(3)])
# (a) relabel mutates input?
X=dp.stack_training_data(data,W)
args=arguments.UserArguments(sparsity_weight=0.11,iteration_limit=5,label_switching_cost=5.0,min_cluster_size=3,min_meaningful_covariance=0,num_clusters=K,num_processors=1,window_size=W,biased_covariance=False)
m=model_state.ModelState.empty_model(args,X); m.point_labels=[i*K//X.shape[0] for i in range(X.shape[0])]
m=cm.update_all_cluster_statistics(m,X)
class P:
    def apply_async(s,f,a,k):
        class R: 
            def get(s2): return f(*a,**k)
        return R()
m2=gl.optimize_markov_random_fields(m,X,P())
before=[(c.inverse_covariance is None, c.log_determinant) for c in m2.clusters]
m3=cla.predict_cluster_labels(m2,X)
after=[(c.inverse_covariance is None, c.log_determinant) for c in m2.clusters]
print("C13 relabel input before",before); print("C13 relabel input after ",after)
print("   inverse_covariance is train_inverse:",[c.inverse_covariance is c.train_inverse for c in m2.clusters])
