import os
os.environ.setdefault("NUMBA_DISABLE_JIT","1")
import numpy as np, itertools, time
from fast_ticc import admm, matrix_compression as mc
from fast_ticc.admm import solver
def stable(empirical_covariance, z_minus_u, rho):
    d,q=np.linalg.eigh(rho*z_minus_u-empirical_covariance)
    s=np.sqrt(np.square(d)+4*rho)
    lam=np.where(d<0, 2.0/(s-d), (d+s)/(2*rho))
    return mc.compress_matrix((q*lam)@q.T)
calls={}
orig_cc=solver.check_convergence
def cc(*a):
    r=orig_cc(*a); calls['n']=calls.get('n',0)+1; calls['conv']=r[0]; return r
solver.check_convergence=cc
def run(S,lam,W,N,fix):
    solver.x_update_prox = stable if fix else orig
    calls.clear()
    th=mc.reinflate_matrix(admm.admm_optimize_theta(S,lam,W,N).theta)
    return th,calls.get('n',0)+1,calls.get('conv')
orig=solver.x_update_prox
scales=[1e-12,1e-9,1e-6,1e-3,1,1e3,1e6,1e9,1e12]
C=np.array([[1,.9],[.9,1]])
for fix in [False,True]:
    bad=0;tot=0;nonconv=0
    for lam in [0.0,1e-3,0.11,1.0]:
      for (N,W) in [(2,1),(1,2)]:
        for s1,s2 in itertools.product(scales,repeat=2):
            D=np.diag(np.sqrt([s1,s2])); S=D@C@D
            th,it,conv=run(S,lam,W,N,fix)
            tot+=1
            ok=np.all(np.isfinite(th)) and np.array_equal(th,th.T)
            try: np.linalg.cholesky(th)
            except Exception: ok=False
            sl=np.linalg.slogdet(th)
            if not(ok and sl[0]>0 and np.isfinite(sl[1])): 
                bad+=1
                if bad<=6: print(" bad",fix,lam,N,W,s1,s2,np.linalg.eigvalsh(th),it,conv)
            if not conv: nonconv+=1
    print("fix",fix,"bad",bad,"of",tot,"nonconverged",nonconv)
