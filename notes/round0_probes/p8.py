import os, time, sys, itertools, collections, warnings
os.environ["NUMBA_DISABLE_JIT"]="1"
import numpy as np, random, io, contextlib
from fast_ticc import front_end, main_loop, cluster_label_assignment as cla, cluster_maintenance as cm, data_preparation as dp
from fast_ticc.containers import arguments
warnings.simplefilter("ignore")
class SyncResult:
    def __init__(s,f,a,k):
        try: s.v=f(*a,**k); s.e=None
        except Exception as e: s.e=e
    def get(s,timeout=None):
        if s.e: raise s.e
        return s.v
class SyncPool:
    def apply_async(s,f,a=(),k={}): return SyncResult(f,a,k)
    def close(s): pass
    def join(s): pass
main_loop._init_task_pool=lambda n: SyncPool()
rng=np.random.default_rng(3)
N,W,K=1,2,2
T=11
series=np.concatenate([rng.normal(0,1,size=(T//2,N)), rng.normal(4,.3,size=(T-T//2,N))])
X=dp.stack_training_data(series,W); Tp=X.shape[0]
print("stacked",X.shape)
samples=[]
class R:
    def sample(self,pop,k):
        samples.append((len(pop),k)); return list(range(k))
cm.random=R()
stats=collections.Counter(); t0=time.time(); finals=collections.Counter(); rounds=collections.Counter()
nrep=0
for init in itertools.product(range(K),repeat=Tp):
    cla.build_initial_clusters=lambda k,d,init=init: list(init)
    args=arguments.UserArguments(sparsity_weight=0.11,iteration_limit=20,label_switching_cost=1.0,min_cluster_size=2,min_meaningful_covariance=0,num_clusters=K,num_processors=1,window_size=W,biased_covariance=False)
    cnt={'r':0}
    orig=cla.predict_cluster_labels
    samples.clear()
    try:
        with contextlib.redirect_stdout(io.StringIO()):
            r=main_loop.fit_stacked_data(args,X)
        stats['ok']+=1; finals[tuple(int(x) for x in r.point_labels)]+=1
        if samples: nrep+=1
    except Exception as e:
        stats[type(e).__name__+":"+str(e)[:40]]+=1
dt=time.time()-t0
print(stats); print("runs",K**Tp,"time %.1fs"%dt,"per run %.1f ms"%(1000*dt/K**Tp)); print("distinct finals",len(finals), finals.most_common(5)); print("runs with repop",nrep)
