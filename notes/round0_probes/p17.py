import os, time, sys, functools, io, contextlib, pickle
os.environ["NUMBA_DISABLE_JIT"]="1"
for v in ("OMP_NUM_THREADS","OPENBLAS_NUM_THREADS","MKL_NUM_THREADS"): os.environ[v]="1"
import numpy as np, random
from fast_ticc import front_end, admm, cluster_label_assignment as cla
import fast_ticc.admm.front_end as afe
rng=np.random.default_rng(0)
N,W,K=2,2,3
data=np.vstack([rng.normal(size=(14,N)), rng.normal(size=(14,N))*3+5, rng.normal(size=(14,N))*.4-4])
Tp=data.shape[0]-W+1
cla.build_initial_clusters=lambda k,d: [min(K-1,i*K//Tp) for i in range(Tp)]
orig=afe.admm_optimize_theta
LOG="/tmp/probe/order.log"
def install(perm, fault=None):
    # identify the task by its covariance bytes -> cluster index is not passed; use a per-round counter file? use S trace value as key
    @functools.wraps(orig)
    def wrapper(S,*a,**k):
        key=float(np.trace(S))
        rank=wrapper.rank_of(key)
        if fault is not None and rank==fault: raise ValueError("injected at rank %d"%rank)
        time.sleep(0.05*perm[rank])
        r=orig(S,*a,**k)
        with open(LOG,"a") as f: f.write("%d %d\n"%(rank,os.getpid()))
        return r
    afe.admm_optimize_theta=wrapper; admm.admm_optimize_theta=wrapper
    return wrapper
def run(perm,P,mp,fault=None):
    open(LOG,"w").close()
    w=install(perm,fault)
    keys=[]
    # rank = index of cluster within the round: determined in parent by wrapping _setup order -> record trace keys in submission order
    from fast_ticc import graphical_lasso as gl
    osetup=gl._setup_optimization_task
    def setup(cluster,*a,**k):
        keys.append(float(np.trace(cluster.empirical_covariance))); return osetup(cluster,*a,**k)
    gl._setup_optimization_task=setup
    w.rank_of=lambda key: 0   # placeholder; child processes are forked at pool creation, before keys exist -> cannot see parent's later list
    if mp: os.environ["CUPCAKE_ENABLE_MULTIPROCESSING"]="1"
    else: os.environ.pop("CUPCAKE_ENABLE_MULTIPROCESSING",None)
    try:
        with contextlib.redirect_stdout(io.StringIO()):
            r=front_end.ticc_labels(data,window_size=W,num_clusters=K,min_cluster_size=3,label_switching_cost=5.0,num_processors=P,iteration_limit=2)
        out=("ok",[int(x) for x in r.point_labels][:6])
    except Exception as e: out=("exc",type(e).__name__,str(e))
    gl._setup_optimization_task=osetup
    return out,open(LOG).read().split("\n")[:8]
print(run([0,1,2],3,True))
