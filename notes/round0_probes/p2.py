import os, time, sys
os.environ.setdefault("NUMBA_DISABLE_JIT","1")
import numpy as np, random, io, contextlib, cProfile, pstats
from fast_ticc import front_end, main_loop, admm
from fast_ticc.admm import solver
rng=np.random.default_rng(0)
T,N,W,K=40,2,2,2
data=np.vstack([rng.normal(size=(T//2,N)), rng.normal(size=(T-T//2,N))*3+5])
np.random.seed(1)
pr=cProfile.Profile(); pr.enable()
with contextlib.redirect_stdout(io.StringIO()):
    r=front_end.ticc_labels(data,window_size=W,num_clusters=K,min_cluster_size=3,label_switching_cost=5.0)
pr.disable()
pstats.Stats(pr).sort_stats('cumulative').print_stats(18)
# ADMM alone
for (N,W) in [(1,1),(1,2),(2,2),(2,3),(3,3),(4,5)]:
    n=N*W
    A=rng.normal(size=(3*n,n)); S=np.cov(A.T).reshape(n,n)
    t=time.time(); 
    res=admm.admm_optimize_theta(S,0.11,W,N)
    print(N,W,"admm %.4fs"%(time.time()-t))
