import os, time, sys, itertools, collections, warnings
os.environ["NUMBA_DISABLE_JIT"]="1"
import numpy as np
from fast_ticc import cluster_maintenance as cm
from fast_ticc.containers import arguments, model_state
class Sampler:
    def __init__(s): s.mode="first"; s.log=[]
    def sample(s,pop,k):
        n=len(pop); s.log.append((n,k))
        if s.mode=="first": return list(range(k))
        if s.mode=="last": return list(range(n-k,n))
        return list(range(0,n,max(1,n//k)))[:k] if len(list(range(0,n,max(1,n//k)))[:k])==k else list(range(k))
S=Sampler(); cm.random=S
def mk(sizes,m,spreads,interleave):
    K=len(sizes)
    labels=[]
    for k,n in enumerate(sizes): labels+= [k]*n
    if interleave:
        labels=sorted(labels,key=lambda k:(labels.index(k)*7+k)%5) if False else [l for pair in itertools.zip_longest(labels[::2],labels[1::2][::-1]) for l in pair if l is not None]
    a=arguments.UserArguments(sparsity_weight=0.1,iteration_limit=1,label_switching_cost=0,min_cluster_size=m,min_meaningful_covariance=0,num_clusters=K,num_processors=1,window_size=1,biased_covariance=False)
    st=model_state.ModelState.empty_model(a,np.zeros((len(labels),1)))
    st.point_labels=list(labels)
    for c,s in zip(st.clusters,spreads): c.computed_covariance=np.array([[float(s)]])
    return st,labels
def reference(sizes,m,spreads):
    orig=list(sizes); sizes=list(sizes); needy=[k for k,n in enumerate(sizes) if n<2]
    if not needy: return ("same",sizes,{})
    don=collections.Counter()
    for k in needy:
        elig=[j for j,n in enumerate(sizes) if n>=2*m and orig[j]>=2*m]
        if not elig: return ("error",None,None)
        d=max(elig,key=lambda j:spreads[j])
        sizes[d]-=m; sizes[k]+=m; don[d]+=1
    return ("ok",sizes,don)
t0=time.time(); n=0; bad=[]; outcomes=collections.Counter()
for K,ms in [(2,[1,2,3]),(3,[1,2]),(4,[1])]:
  for m in ms:
    for sizes in itertools.product(range(0,3*m+3),repeat=K):
      if sum(sizes)==0: continue
      for spreads in itertools.permutations(range(1,K+1)):
        for inter in [False,True]:
          for mode in ["first","last"]:
            S.mode=mode; S.log=[]
            st,labels=mk(sizes,m,spreads,inter)
            before=(list(st.point_labels),[list(c.member_points) for c in st.clusters])
            exp=reference(sizes,m,spreads)
            # NOTE reference with ties: spreads distinct here
            try:
                out=cm.repopulate_empty_clusters(st); err=None
            except RuntimeError as e: out=None; err=e
            n+=1
            after=(list(st.point_labels),[list(c.member_points) for c in st.clusters])
            prob=None
            if after!=before: prob="input mutated"
            elif exp[0]=="error":
                if err is None: prob="expected error"
                outcomes['error']+=1
            elif err is not None: prob="unexpected error "+str(err)[:30]
            else:
                new=list(out.point_labels); ns=[new.count(k) for k in range(K)]
                if exp[0]=="same":
                    outcomes['same']+=1
                    if new!=labels: prob="changed though not needed"
                else:
                    outcomes['ok']+=1
                    if ns!=exp[1]: prob=f"sizes {ns} != {exp[1]}"
                    moved=[(a,b) for a,b in zip(labels,new) if a!=b]
                    needy=[k for k,x in enumerate(sizes) if x<2]
                    if any(b not in needy or sizes[a]<2*m for a,b in moved): prob="illegal move"
                    if [sorted(i for i,l in enumerate(new) if l==k) for k in range(K)]!=[list(c.member_points) for c in out.clusters]: prob="partition"
            if prob: bad.append((K,m,sizes,spreads,inter,mode,prob))
print("cases",n,"outcomes",dict(outcomes),"bad",len(bad),"%.1fs"%(time.time()-t0))
for b in bad[:12]: print(b)
