import os, pickle, io, contextlib
os.environ["NUMBA_DISABLE_JIT"]="1"
import numpy as np
from fast_ticc import front_end, cluster_metrics, data_preparation as dp
d=pickle.load(open('/repo/tests/test_data/single_trajectory_features.pkl','rb'))
print(type(d), d.shape, d.mean(axis=0), d.std(axis=0))
X=dp.stack_training_data(d,10)
print("col means range", X.mean(axis=0).min(), X.mean(axis=0).max(), "scalar", X.mean())
np.random.seed(12345)
with contextlib.redirect_stdout(io.StringIO()):
    r=front_end.ticc_labels(d,window_size=10,num_clusters=5,min_meaningful_covariance=0,num_processors=5,label_switching_cost=200)
lab=np.array([l for l in r.point_labels if l!=-1])
K=5; T=len(lab)
c=X.mean(axis=0)
B=sum((lab==k).sum()*np.sum((X[lab==k].mean(axis=0)-c)**2) for k in range(K))
Bs=sum((lab==k).sum()*np.sum((X[lab==k].mean(axis=0)-X.mean())**2) for k in range(K))
Wd=sum(np.sum((X[lab==k]-X[lab==k].mean(axis=0))**2) for k in range(K))
print("reported",r.calinski_harabasz_index,"definition",(B/(K-1))/(Wd/(T-K)),"scalar-centre",(Bs/(K-1))/(Wd/(T-K)))
print(open('/repo/tests/test_ticc_single_trajectory/test_ticc_single_trajectory_calinski_harabasz_index.csv').read())
