import os, time, sys
os.environ.setdefault("NUMBA_DISABLE_JIT","1")
import numpy as np, random, io, contextlib
import fast_ticc
from fast_ticc import front_end
def run(T=40,N=2,W=2,K=2,seed=0,**kw):
    rng=np.random.default_rng(seed)
    half=T//2
    a=rng.normal(size=(half,N)); b=rng.normal(size=(T-half,N))*3+5
    data=np.vstack([a,b])
    np.random.seed(1); random.seed(1)
    t=time.time()
    with contextlib.redirect_stdout(io.StringIO()):
        r=front_end.ticc_labels(data,window_size=W,num_clusters=K,min_cluster_size=3,label_switching_cost=5.0,**kw)
    return r,time.time()-t
for (T,N,W,K) in [(40,2,2,2),(60,2,3,3),(30,1,1,2),(80,3,4,3)]:
    r,dt=run(T,N,W,K)
    print(T,N,W,K,"%.3fs"%dt, r.point_labels[:12], len(r.all_log_likelihood), r.label_assignment_cost, r.bayesian_information_criterion)
