import os, time, sys, itertools, collections, operator
os.environ["NUMBA_DISABLE_JIT"]="1"
import numpy as np
from fast_ticc import cluster_label_assignment as cla
t0=time.time(); n=0; bad=[]; ties=0
V=[-2,0,1,3]
for (T,K) in [(1,1),(1,2),(2,1),(1,3),(3,1),(2,2),(2,3),(3,2),(4,2),(1,4),(4,1)]:
    seqs=np.array(list(itertools.product(range(K),repeat=T)))   # S x T
    change=(seqs[:,1:]!=seqs[:,:-1]) if T>1 else np.zeros((len(seqs),0),bool)
    betas=[0,1,2.0,np.float64(5)]+[np.array(b,float) for b in itertools.product([0,2],repeat=T)]
    for vals in itertools.product(V if T*K<=6 else [0,1,3],repeat=T*K):
        a=np.array(vals,float).reshape(T,K)
        assign=a[np.arange(T)[None,:],seqs].sum(axis=1)
        for beta in betas:
            bv=np.zeros(T)+beta
            obj=assign+(change*bv[None,:T-1]).sum(axis=1)
            mn=obj.min(); ties+= (obj==mn).sum()>1
            labels,cost=cla.assign_point_cluster_labels(a,beta)
            n+=1
            ok=len(labels)==T and all(0<=operator.index(l)<K for l in labels)
            if ok:
                mine=sum(a[i,labels[i]] for i in range(T))+sum(bv[i] for i in range(T-1) if labels[i]!=labels[i+1])
                ok = (mine==cost) and (cost==mn)
            if not ok: bad.append((T,K,vals,beta if np.isscalar(beta) else beta.tolist(),labels,cost,mn))
print("cases",n,"with ties",ties,"bad",len(bad),"%.1fs"%(time.time()-t0))
for b in bad[:8]: print(b)
