import os, time, sys, functools, io, contextlib, pickle
os.environ["NUMBA_DISABLE_JIT"]="1"
for v in ("OMP_NUM_THREADS","OPENBLAS_NUM_THREADS","MKL_NUM_THREADS"): os.environ[v]="1"
import numpy as np, random, multiprocessing
from fast_ticc import front_end, main_loop, cluster_label_assignment as cla
class Injected(Exception): pass
def trampoline(tag, plan, f, args, kwargs):
    rnd,idx=tag
    if plan.get("fault")==(rnd,idx): raise Injected("fault at %s"%(tag,))
    time.sleep(0.04*plan["perm"][idx])
    r=f(*args,**kwargs)
    return (os.getpid(), time.time(), r)
class TaggedResult:
    def __init__(s,ar,log,tag): s.ar=ar; s.log=log; s.tag=tag
    def get(s,timeout=None):
        pid,t,r=s.ar.get(timeout); s.log.append((s.tag,pid,t)); return r
class PoolProxy:
    def __init__(s,real,plan,K): s.real=real; s.plan=plan; s.K=K; s.n=0; s.log=[]
    def apply_async(s,f,args=(),kwds={}):
        tag=(s.n//s.K, s.n%s.K); s.n+=1
        return TaggedResult(s.real.apply_async(trampoline,(tag,s.plan,f,args,kwds)),s.log,tag)
    def __getattr__(s,name): return getattr(s.real,name)
rng=np.random.default_rng(0)
N,W,K=2,2,3
data=np.vstack([rng.normal(size=(14,N)), rng.normal(size=(14,N))*3+5, rng.normal(size=(14,N))*.4-4])
Tp=data.shape[0]-W+1
cla.build_initial_clusters=lambda k,d: [min(K-1,i*K//Tp) for i in range(Tp)]
orig_init=main_loop._init_task_pool
def children():
    me=os.getpid(); out=[]
    for p in os.listdir('/proc'):
        if p.isdigit():
            try:
                s=open(f'/proc/{p}/stat').read(); 
                if int(s.rsplit(')',1)[1].split()[1])==me: out.append(int(p))
            except Exception: pass
    return out
def run(perm,P,mp,fault=None,limit=2):
    plan={"perm":perm,"fault":fault}; holder={}
    def init(n):
        holder['p']=PoolProxy(orig_init(n),plan,K); return holder['p']
    main_loop._init_task_pool=init
    if mp: os.environ["CUPCAKE_ENABLE_MULTIPROCESSING"]="1"
    else: os.environ.pop("CUPCAKE_ENABLE_MULTIPROCESSING",None)
    t=time.time()
    try:
        with contextlib.redirect_stdout(io.StringIO()):
            r=front_end.ticc_labels(data,window_size=W,num_clusters=K,min_cluster_size=3,label_switching_cost=5.0,num_processors=P,iteration_limit=limit)
        out=("ok",pickle.dumps(([int(x) for x in r.point_labels],[m.tobytes() for m in r.markov_random_fields])))
        e=None
    except Exception as e_:
        e=e_; out=("exc",type(e).__name__,str(e),"children while held:",len(children()))
    log=holder['p'].log
    order=[tag for tag,pid,t in sorted(log,key=lambda x:x[2])]
    return out,order,len({pid for _,pid,_ in log}),"%.2fs"%(time.time()-t)
import itertools
ref=None
for perm in itertools.permutations(range(3)):
    out,order,npids,dt=run(list(perm),3,True)
    if ref is None: ref=out
    print(perm,"completion order round0:",[i for (r,i) in order if r==0],"pids",npids,dt,"same as ref:",out==ref)
print(run([0,1,2],1,False)[1:], run([0,1,2],3,True,fault=(1,2),limit=3))
