import os
os.environ.setdefault("NUMBA_DISABLE_JIT","1")
import numpy as np, warnings
from fast_ticc import cluster_label_assignment as cla
K=65537
a=np.ones((3,K)); a[1,65536]=0; a[2,65536]=0; a[0,5]=0
try:
    with warnings.catch_warnings():
        warnings.simplefilter("error")
        print(cla.assign_point_cluster_labels(a,0.5))
except Exception as e: print("EXC",type(e).__name__,e)
with warnings.catch_warnings():
    warnings.simplefilter("ignore")
    try: print(cla.assign_point_cluster_labels(a,0.5))
    except Exception as e: print("EXC",type(e).__name__,e)
# T=1, K=1
print(cla.assign_point_cluster_labels(np.array([[3.0]]),2.0))
print(cla.assign_point_cluster_labels(np.array([[3.0,1.0]]),np.array([2.0])))
try: print(cla.assign_point_cluster_labels(np.array([[3.0,1.0],[0,5]]),np.array([2])))
except Exception as e: print("EXC",type(e).__name__,e)
print(cla.assign_point_cluster_labels(np.array([[3,1],[0,5]]),2))
