import os, time, sys, itertools, collections, warnings, pickle
os.environ["NUMBA_DISABLE_JIT"]="1"
import numpy as np, random, io, contextlib
from fast_ticc import front_end, main_loop, cluster_label_assignment as cla, cluster_maintenance as cm
warnings.simplefilter("ignore")
class R:
    def __init__(s,f,a,k):
        try: s.v=f(*a,**k); s.e=None
        except Exception as e: s.e=e
    def get(s,timeout=None):
        if s.e: raise s.e
        return s.v
class P:
    def apply_async(s,f,a=(),k={}): return R(f,a,k)
    def close(s): pass
    def join(s): pass
main_loop._init_task_pool=lambda n: P()
rng=np.random.default_rng(5)
def blocks(Tp,K): return [min(K-1,i*K//Tp) for i in range(Tp)]
res=collections.Counter(); t0=time.time(); times=[]
for N in [1,2,3]:
  for W in [1,2,3,4,5,6]:
    for K in [2,3]:
      for extra in [5,6,9]:
        T=W+extra; Tp=T-W+1
        data=np.concatenate([rng.normal(3*k,1+k,size=(T//K+ (1 if k<T%K else 0),N)) for k in range(K)])
        cla.build_initial_clusters=lambda k,d,Tp=Tp,K=K: blocks(Tp,K)
        t=time.time()
        try:
            with contextlib.redirect_stdout(io.StringIO()):
                r=front_end.ticc_labels(data,window_size=W,num_clusters=K,min_cluster_size=2,label_switching_cost=1.0,iteration_limit=10)
            f=(W-1)//2; b=W-1-f
            good=len(r.point_labels)==T and all(x==-1 for x in r.point_labels[:f]) and all(x==-1 for x in r.point_labels[T-b:]) and all(0<=x<K for x in r.point_labels[f:T-b])
            res['ok' if good else 'BAD']+=1
        except Exception as e:
            res[type(e).__name__+":"+str(e)[:50]]+=1
        times.append(time.time()-t)
print(res); print("n",len(times),"total %.1fs max %.2fs"%(sum(times),max(times)))
