import os, sys, io, contextlib, time
mode=sys.argv[1]
if mode=="nojit": os.environ["NUMBA_DISABLE_JIT"]="1"
if mode=="absent": sys.modules['numba']=None
import numpy as np, warnings
warnings.simplefilter("ignore")
from fast_ticc import front_end, likelihood, admm, cluster_label_assignment as cla, numba_guard
print("mode",mode,"numba available",numba_guard.NUMBA_AVAILABLE)
# --- C05 kernel tolerance
rng=np.random.default_rng(0)
worst=0
for NW in [1,2,5,50,200]:
    for target in [t for t in [-3000,-800,0,800,3000] if abs(t)<=600*NW]:
        B=np.eye(NW)*2-np.eye(NW,k=1)-np.eye(NW,k=-1) if NW>1 else np.eye(1)
        ldB=np.linalg.slogdet(B)[1]
        s=np.exp((target-ldB)/NW); Th=s*B
        L=np.linalg.cholesky(Th); ld=2*np.sum(np.log(np.diag(L)))
        mu=rng.integers(-1,3,size=NW).astype(float); X=rng.integers(-1,3,size=(3,NW)).astype(float)
        tab=likelihood.all_points_all_clusters_log_likelihood_fast(1,1,mu[None,:],Th[None,:,:],np.array([ld]),X)
        for i in range(3):
            d=X[i]-mu; q=np.sum((L.T@d)**2); ref=0.5*(ld-q-NW*np.log(2*np.pi))
            scale=abs(ld)+q+NW
            worst=max(worst,abs(tab[i,0]-ref)/scale)
print("C05 worst relative-to-scale error",worst)
# --- complete run + read-only / F-order inputs
N,W,K=2,2,2
data=np.vstack([rng.normal(size=(15,N)), rng.normal(size=(15,N))*3+5])
Tp=data.shape[0]-W+1
cla.build_initial_clusters=lambda k,d: [min(K-1,i*K//Tp) for i in range(Tp)]
def run(d,**kw):
    with contextlib.redirect_stdout(io.StringIO()):
        r=front_end.ticc_labels(d,window_size=W,num_clusters=K,min_cluster_size=3,label_switching_cost=2.0,iteration_limit=4,**kw)
    return [int(x) for x in r.point_labels], [m.tobytes() for m in r.markov_random_fields], float(r.label_assignment_cost)
base=run(data)
ro=data.copy(); ro.setflags(write=False); snap=ro.tobytes()
F=np.asfortranarray(data); f32=data.astype(np.float32).astype(np.float64)
lamM=np.full((N*W,N*W),0.11); lamM.setflags(write=False); betaV=np.full(Tp,2.0); betaV.setflags(write=False)
for name,call in [("readonly",lambda:run(ro)),("fortran",lambda:run(F)),("matrix lambda ro",lambda:run(data,sparsity_weight=lamM)),("vector beta ro",lambda:run(data,label_switching_cost=betaV))]:
    try:
        out=call(); print(" ",name,"labels equal",out[0]==base[0],"mrf bitwise",out[1]==base[1],"cost equal",out[2]==base[2])
    except Exception as e: print(" ",name,"EXC",type(e).__name__,str(e)[:100])
print("  readonly unchanged",ro.tobytes()==snap, "labels",base[0][:8],"cost",base[2])
