import os, time, sys, itertools, collections, warnings, pickle
os.environ["NUMBA_DISABLE_JIT"]="1"
import numpy as np, random, io, contextlib
from fast_ticc import main_loop, cluster_label_assignment as cla, cluster_maintenance as cm, data_preparation as dp, graphical_lasso as gl
from fast_ticc.containers import arguments, model_state
warnings.simplefilter("ignore")
class VRes:
    def __init__(s,pool,i): s.pool=pool; s.i=i
    def get(s,timeout=None):
        s.pool.flush()
        kind,val=s.pool.results[s.i]
        if kind=="exc": raise val
        return val
class VPool:
    def __init__(s): s.tasks=[]; s.results={}
    def apply_async(s,f,a=(),k={}):
        s.tasks.append((f,pickle.loads(pickle.dumps((a,k))))); return VRes(s,len(s.tasks)-1)
    def flush(s):
        for i,(f,(a,k)) in enumerate(s.tasks):
            if i in s.results: continue
            try: s.results[i]=("ok",pickle.loads(pickle.dumps(f(*a,**k))))
            except Exception as e: s.results[i]=("exc",e)
    def close(s): pass
    def join(s): pass
main_loop._init_task_pool=lambda n: VPool()
rng=np.random.default_rng(3)
N,W,K=1,2,2; T=9
series=np.concatenate([rng.normal(0,1,size=(T//2,N)), rng.normal(2.5,.6,size=(T-T//2,N))])
X=dp.stack_training_data(series,W); Tp=X.shape[0]
def mkargs(limit): return arguments.UserArguments(sparsity_weight=0.11,iteration_limit=limit,label_switching_cost=1.0,min_cluster_size=2,min_meaningful_covariance=0,num_clusters=K,num_processors=1,window_size=W,biased_covariance=False)
class Sampler:
    def __init__(s): s.script=[]; s.log=[]
    def sample(s,pop,k):
        n=len(pop); s.log.append((n,k))
        if s.script: c=s.script.pop(0)
        else: c=tuple(range(k))
        return list(c)
SAMP=Sampler(); cm.random=SAMP
# ---------- model: F on fresh states
def fresh_state(labels, spreads=None):
    m=model_state.ModelState.empty_model(mkargs(1),X); m.point_labels=list(labels)
    if spreads is not None:
        for c,s in zip(m.clusters,spreads): c.computed_covariance=np.array([[s]])
    return m
def F(labels, spreads, repop, script):
    m=fresh_state(labels, spreads)
    SAMP.script=list(script); SAMP.log=[]
    if repop: m=cm.repopulate_empty_clusters(m)
    post=tuple(int(x) for x in m.point_labels)
    m=cm.update_all_cluster_statistics(m,X)
    m=gl.optimize_markov_random_fields(m,X,VPool())
    m=cla.predict_cluster_labels(m,X)
    return post,tuple(int(x) for x in m.point_labels), float(m.label_assignment_cost), [c.train_inverse.tobytes() for c in m.clusters], tuple(float(np.linalg.norm(c.computed_covariance)) for c in m.clusters)
# ---------- traced real run
trace=[]
for name,mod,fn in [("repop",cm,"repopulate_empty_clusters"),("stats",cm,"update_all_cluster_statistics"),("opt",gl,"optimize_markov_random_fields"),("relabel",cla,"predict_cluster_labels")]:
    o=getattr(mod,fn)
    def w(*a,_o=o,_n=name,**k):
        r=_o(*a,**k); trace.append((_n,r)); return r
    setattr(mod,fn,w)
def real_run(init,limit,script):
    trace.clear(); SAMP.script=list(script); SAMP.log=[]
    cla.build_initial_clusters=lambda k,d: list(init)
    with contextlib.redirect_stdout(io.StringIO()):
        r=main_loop.fit_stacked_data(mkargs(limit),X)
    return r,list(trace),list(SAMP.log)
t0=time.time(); ok=bad=fail=0; rounds=collections.Counter(); mism=[]
for init in itertools.product(range(K),repeat=Tp):
    try: r,tr,slog=real_run(init,6,[])
    except Exception as e: fail+=1; continue
    rel=[m for (n,m) in tr if n=="relabel"]
    rounds[len(rel)]+=1
    # compare each round with fresh F
    cur=tuple(init); spreads=None; good=True
    for i,m in enumerate(rel):
        try:
            post,nxt,cost,mrfs,spr=F(cur,spreads,i>0,[])
        except Exception as e:
            good=False; mism.append((init,i,"F raised",repr(e)[:60])); break
        got=tuple(int(x) for x in m.point_labels)
        if got!=nxt or np.float64(m.label_assignment_cost).tobytes()!=np.float64(cost).tobytes() or [c.train_inverse.tobytes() for c in m.clusters]!=mrfs:
            good=False; mism.append((init,i,cur,got,nxt)); break
        cur=nxt; spreads=spr
    ok+=good; bad+=(not good)
print("runs ok",ok,"mismatch",bad,"raised",fail,"rounds",dict(rounds),"%.1fs"%(time.time()-t0))
print(mism[:5])
