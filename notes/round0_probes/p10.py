import os, time, sys, itertools, math
os.environ["NUMBA_DISABLE_JIT"]="1"
import numpy as np
from fast_ticc import admm, matrix_compression as mc
from fast_ticc.admm import solver
info={}
orig_cc=solver.check_convergence
def cc(*a):
    r=orig_cc(*a); info['n']=info.get('n',0)+1; info['conv']=bool(r[0]); return r
solver.check_convergence=cc

def classes(N,W):
    # reference: upper-triangle positions grouped by Toeplitz class from the definition
    n=N*W; d={}
    for i in range(n):
        for j in range(i,n):
            d.setdefault((j//N-i//N, i%N, j%N),[]).append((i,j))
    return d
def certificate(S,lam,W,N,x_full,rho_final,abs_tol=1e-6,rel_tol=1e-6):
    n=N*W
    L=np.full((n,n),float(lam)) if np.isscalar(lam) else np.asarray(lam,float)
    xinv=np.linalg.inv(x_full)
    G=S-xinv
    iu=np.triu_indices(n)
    absterm=math.sqrt(len(iu[0]))*abs_tol+1e-4
    xc=x_full[iu]
    eps_pri=(absterm+rel_tol*np.linalg.norm(xc))/(1-rel_tol)
    eps_dual=(absterm+rel_tol*np.linalg.norm(G[iu]))/(1-rel_tol)
    worst=0; worst_toep=0
    for key,pos in classes(N,W).items():
        r=[p[0] for p in pos]; c=[p[1] for p in pos]; R=len(pos)
        vals=x_full[r,c]; m=vals.mean()
        worst_toep=max(worst_toep,(vals.max()-vals.min())/(2*eps_pri))
        g=G[r,c].sum(); l=L[r,c].sum()
        delta=eps_pri/math.sqrt(R)
        tol=math.sqrt(R)*eps_dual
        if m>delta: res=abs(g+l)
        elif m<-delta: res=abs(g-l)
        else: res=max(0,abs(g)-l)
        worst=max(worst,res/tol)
    return worst,worst_toep
rng=np.random.default_rng(1)
def boyd(rho,rp,tp,rd,td):
    if rp>10*rd: return rho*2
    if rd>10*rp: return rho/2
    return rho
t0=time.time(); worst_all=0; maxit=0; nonconv=0; cnt=0; wt=0
for (N,W) in [(1,1),(1,2),(2,1),(2,2),(1,3),(3,1),(2,3),(3,2)]:
    n=N*W
    Qs=[np.eye(n)]
    if n>1:
        v=np.ones((n,1))/math.sqrt(n); Qs.append(np.eye(n)-2*v@v.T)
        A=rng.normal(size=(n,n)); Qs.append(np.linalg.qr(A)[0])
    eigsets=list(itertools.product([0.25,1,4],repeat=n)) if n<=4 else [tuple(rng.choice([0.25,1,4],size=n)) for _ in range(40)]
    for Q in Qs:
      for e in eigsets:
        S=(Q*np.array(e))@Q.T; S=(S+S.T)/2
        Lm=np.abs(rng.normal(size=(n,n))); Lm=(Lm+Lm.T)/2*0.3
        for lam in [0.0,1e-3,0.11,1.0,np.full((n,n),0.11),Lm]:
          for rho,upd in [(1,None),(0.1,None),(10,None),(1,boyd)]:
            info.clear()
            th=mc.reinflate_matrix(admm.admm_optimize_theta(S,lam,W,N,rho=rho,rho_update=upd).theta)
            cnt+=1; it=info.get('n',0)+1
            if not info.get('conv'): nonconv+=1; continue
            if rho==1 and upd is None: maxit=max(maxit,it)
            w,t=certificate(S,lam,W,N,th,rho)
            if w>worst_all: worst_all=w; print("new worst",w,N,W,e,type(lam).__name__,rho,upd is not None,it)
            wt=max(wt,t)
print("runs",cnt,"nonconv",nonconv,"max iters (rho=1,no update)",maxit,"worst KKT ratio",worst_all,"worst toeplitz ratio",wt,"%.1fs"%(time.time()-t0))
