import os, time, sys, gc
os.environ.setdefault("NUMBA_DISABLE_JIT","1")
import numpy as np, random, io, contextlib, multiprocessing, functools
from fast_ticc import front_end, main_loop, admm, cluster_label_assignment as cla
import fast_ticc.admm.front_end as afe
rng=np.random.default_rng(0)
T,N,W,K=40,2,2,2
data=np.vstack([rng.normal(size=(T//2,N)), rng.normal(size=(T-T//2,N))*3+5])
orig=afe.admm_optimize_theta
cnt={'n':0}
@functools.wraps(orig)
def failing(*a,**k):
    raise ValueError("injected fault")
def children():
    me=os.getpid(); out=[]
    for p in os.listdir('/proc'):
        if p.isdigit():
            try:
                with open(f'/proc/{p}/stat') as f: s=f.read()
                ppid=int(s.rsplit(')',1)[1].split()[1])
                if ppid==me: out.append((int(p), s.rsplit(')',1)[1].split()[0]))
            except Exception: pass
    return out
for mp in ["", "1"]:
    if mp: os.environ['CUPCAKE_ENABLE_MULTIPROCESSING']=mp
    afe.admm_optimize_theta=failing; admm.admm_optimize_theta=failing
    np.random.seed(1)
    t=time.time()
    try:
        with contextlib.redirect_stdout(io.StringIO()):
            r=front_end.ticc_labels(data,window_size=W,num_clusters=K,min_cluster_size=3,label_switching_cost=5.0,num_processors=3)
        print("returned?!")
    except Exception as e:
        print("mp",repr(mp),"raised",type(e).__name__,e,"%.2fs"%(time.time()-t))
    print("  children right after:",children())
    gc.collect(); time.sleep(0.5)
    print("  children after gc+0.5s:",children())
    afe.admm_optimize_theta=orig; admm.admm_optimize_theta=orig
