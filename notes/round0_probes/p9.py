import os, time, sys, itertools, collections, warnings
os.environ["NUMBA_DISABLE_JIT"]="1"
import numpy as np, random, io, contextlib
exec(open('p8.py').read().split("rng=np.random")[0].split("import numpy as np, random, io, contextlib",1)[1]) if False else None
from fast_ticc import front_end, main_loop, cluster_label_assignment as cla, cluster_maintenance as cm, data_preparation as dp, graphical_lasso as gl
from fast_ticc.containers import arguments
class SyncResult:
    def __init__(s,f,a,k):
        try: s.v=f(*a,**k); s.e=None
        except Exception as e: s.e=e
    def get(s,timeout=None):
        if s.e: raise s.e
        return s.v
class SyncPool:
    def apply_async(s,f,a=(),k={}): return SyncResult(f,a,k)
    def close(s): pass
    def join(s): pass
main_loop._init_task_pool=lambda n: SyncPool()
rng=np.random.default_rng(3)
N,W,K=1,2,2; T=11
series=np.concatenate([rng.normal(0,1,size=(T//2,N)), rng.normal(4,.3,size=(T-T//2,N))])
X=dp.stack_training_data(series,W)
trace=[]
for modname,mod,fn in [("repop",cm,"repopulate_empty_clusters"),("stats",cm,"update_all_cluster_statistics"),("opt",gl,"optimize_markov_random_fields"),("relabel",cla,"predict_cluster_labels")]:
    o=getattr(mod,fn)
    def w(*a,_o=o,_n=modname,**k):
        r=_o(*a,**k); trace.append((_n,[int(x) for x in r.point_labels],[None if c.train_inverse is None else np.round(c.train_inverse,3).tolist() for c in r.clusters] if _n=="opt" else None, [None if c.empirical_covariance is None else np.round(c.empirical_covariance,3).tolist() for c in r.clusters] if _n=="stats" else None)); return r
    setattr(mod,fn,w)
for init in [(1,0,0,0,0,0,0,0,0,0),(0,1,0,0,1,0,0,0,0,0)]:
    trace.clear()
    cla.build_initial_clusters=lambda k,d,init=init: list(init)
    args=arguments.UserArguments(sparsity_weight=0.11,iteration_limit=20,label_switching_cost=1.0,min_cluster_size=2,min_meaningful_covariance=0,num_clusters=K,num_processors=1,window_size=W,biased_covariance=False)
    with contextlib.redirect_stdout(io.StringIO()):
        r=main_loop.fit_stacked_data(args,X)
    for t in trace[:12]: print(t)
    print("final",r.point_labels,r.label_assignment_cost,r.bayesian_information_criterion,r.calinski_harabasz_index, r.overall_log_likelihood)
