import os, time, sys, io, contextlib, pickle, itertools
os.environ["NUMBA_DISABLE_JIT"]="1"
for v in ("OMP_NUM_THREADS","OPENBLAS_NUM_THREADS","MKL_NUM_THREADS"): os.environ[v]="1"
import numpy as np, multiprocessing
from fast_ticc import front_end, main_loop, cluster_label_assignment as cla
TURN=None  # shared, created before the fork
def trampoline(tag, rank, f, args, kwargs):
    r=f(*args,**kwargs)
    rnd,idx=tag
    target=rnd*1000+rank
    t0=time.time()
    while True:
        with TURN.get_lock():
            if TURN.value==target: break
        if time.time()-t0>20: raise RuntimeError("harness: turn wait timed out %s"%(tag,))
        time.sleep(0.001)
    return (os.getpid(), r)
class TaggedResult:
    def __init__(s,ar): s.ar=ar
    def get(s,timeout=None): return s.ar.get(timeout)[1]
class PoolProxy:
    def __init__(s,real,perm,K): s.real=real; s.perm=perm; s.K=K; s.n=0; s.arrivals=[]; s.pids={}
    def apply_async(s,f,args=(),kwds={}):
        rnd,idx=s.n//s.K, s.n%s.K; s.n+=1
        rank=s.perm.index(idx)       # perm = completion order: perm[0] completes first
        if idx==0:
            with TURN.get_lock(): TURN.value=rnd*1000
        def cb(res,rnd=rnd,idx=idx,rank=rank):
            s.arrivals.append((rnd,idx)); s.pids[(rnd,idx)]=res[0]
            with TURN.get_lock(): TURN.value=rnd*1000+rank+1
        return TaggedResult(s.real.apply_async(trampoline,((rnd,idx),rank,f,args,kwds),callback=cb))
    def __getattr__(s,name): return getattr(s.real,name)
def feasible(perm,P,K):
    started=set(range(min(P,K))); nxt=len(started)
    for t in perm:
        if t not in started: return False
        started.discard(t)
        if nxt<K: started.add(nxt); nxt+=1
    return True
rng=np.random.default_rng(0)
N,W,K=2,2,3
data=np.vstack([rng.normal(size=(14,N)), rng.normal(size=(14,N))*3+5, rng.normal(size=(14,N))*.4-4])
Tp=data.shape[0]-W+1
cla.build_initial_clusters=lambda k,d: [min(K-1,i*K//Tp) for i in range(Tp)]
orig_init=main_loop._init_task_pool
def run(perm,P,mp):
    global TURN
    holder={}
    def init(n):
        global TURN
        TURN=multiprocessing.Value('i',-1)
        holder['p']=PoolProxy(orig_init(n),list(perm),K); return holder['p']
    main_loop._init_task_pool=init
    if mp: os.environ["CUPCAKE_ENABLE_MULTIPROCESSING"]="1"
    else: os.environ.pop("CUPCAKE_ENABLE_MULTIPROCESSING",None)
    t=time.time()
    with contextlib.redirect_stdout(io.StringIO()):
        r=front_end.ticc_labels(data,window_size=W,num_clusters=K,min_cluster_size=3,label_switching_cost=5.0,num_processors=P,iteration_limit=3)
    p=holder['p']
    return pickle.dumps(([int(x) for x in r.point_labels],[m.tobytes() for m in r.markov_random_fields])), p.arrivals, len(set(p.pids.values())), time.time()-t
ref=None; n=0
for P in [1,2,3,4]:
    for mp in [True]:
        for perm in itertools.permutations(range(K)):
            Peff=P
            if not feasible(perm,Peff,K): continue
            out,arr,npids,dt=run(perm,P,mp); n+=1
            if ref is None: ref=out
            rounds=sorted({r for r,_ in arr})
            forced=all([i for (r,i) in arr if r==rd]==list(perm) for rd in rounds)
            print("P",P,"perm",perm,"forced",forced,"rounds",len(rounds),"workers used",npids,"%.2fs"%dt,"equal",out==ref)
print("schedules",n)
