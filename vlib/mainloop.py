"""E2 - main-loop explorer: scripted real runs, fresh-state model, conformance,
and the per-run monitors shared by C03..C17."""
import itertools
import math

import numpy as np

from vlib import refs, seams
from vlib.codec import bits
from vlib.ctx import HarnessError
from vlib.seams import TRACER


# ====================================================================== drivers
def ref_stack(series, W):
    series = np.asarray(series, dtype=np.float64)
    T, N = series.shape
    X = np.zeros((T - W + 1, N * W))
    for i in range(T - W + 1):
        for j in range(W):
            X[i, j * N:(j + 1) * N] = series[i + j]
    return X


class Driver:
    def __init__(self, name, series, W, K, lam=0.11, beta=1.0, m=2, eps=0, biased=False,
                 joint=False, limit=20):
        self.name = name
        self.series = [np.asarray(s, dtype=np.float64) for s in series]
        self.joint = joint
        if not joint and len(self.series) != 1:
            raise HarnessError("single-series driver needs exactly one series")
        self.W = W
        self.K = K
        self.N = self.series[0].shape[1]
        self.lam = lam
        self.beta = beta
        self.m = m
        self.eps = eps
        self.biased = biased
        self.limit = limit
        self.lengths = [len(s) - W + 1 for s in self.series]
        self.X = np.vstack([ref_stack(s, W) for s in self.series])
        self.Tp = self.X.shape[0]

    def boundaries(self):
        """stacked indices i such that (i, i+1) straddles two series"""
        acc = list(itertools.accumulate(self.lengths))[:-1]
        return [e - 1 for e in acc]

    def user_args(self, limit):
        from fast_ticc.containers import arguments
        return arguments.UserArguments(
            sparsity_weight=self.lam, iteration_limit=limit, label_switching_cost=self.beta,
            min_cluster_size=self.m, min_meaningful_covariance=self.eps, num_clusters=self.K,
            num_processors=1, window_size=self.W, biased_covariance=self.biased)

    def describe(self):
        return {"name": self.name, "series_lengths": [len(s) for s in self.series], "N": self.N,
                "W": self.W, "K": self.K, "lambda": _short(self.lam), "beta": _short(self.beta),
                "m": self.m, "eps": self.eps, "biased": self.biased, "joint": self.joint,
                "stacked_points": self.Tp}


def _short(v):
    if isinstance(v, np.ndarray):
        return f"array{v.shape}"
    return v


def two_regime_series(T, N, seed, sep=2.5, s1=1.0, s2=0.6, split=None):
    rng = np.random.default_rng(seed)
    split = T // 2 if split is None else split
    a = rng.normal(0.0, s1, size=(split, N))
    b = rng.normal(sep, s2, size=(T - split, N))
    return np.round(np.concatenate([a, b]), 3)


def three_regime_series(T, N, seed):
    rng = np.random.default_rng(seed)
    a = T // 3
    parts = [rng.normal(0.0, 1.0, size=(a, N)), rng.normal(3.0, 0.5, size=(a, N)),
             rng.normal(-3.0, 0.8, size=(T - 2 * a, N))]
    return np.round(np.concatenate(parts), 3)


# ====================================================================== real runs
class RunRecord:
    __slots__ = ("scripted_relabel", "driver", "init", "limit", "script", "entry", "result", "error", "events",
                 "label_calls", "admm_calls", "sampler_log", "unscripted", "rounds", "final",
                 "pools", "rng_clean")


def real_run(driver, init, limit, script=(), entry="fit", orders=None, task_fault=None,
             phase_fault=None, pool="virtual", relabel_script=None, real_random=False, deep=True):
    """One complete run of the real code under scripted seams (real_random: the donor draw is left to the
    library's own use of the global generator; the caller seeds it)."""
    import fast_ticc
    from fast_ticc import main_loop
    TRACER.install()
    # explicit: the flag is process-wide and other engines (E3, front-end probes) switch it off
    TRACER.deep = deep
    TRACER.begin(init_labels=init, donor_script=script, pool_factory=pool, orders=orders,
                 task_fault=task_fault, phase_fault=phase_fault, real_random=real_random)
    if relabel_script is not None:
        TRACER.relabel_script = [list(l) for l in relabel_script]
    rec = RunRecord()
    rec.driver, rec.init, rec.limit, rec.script, rec.entry = driver, init, limit, tuple(script), entry
    rec.scripted_relabel = relabel_script is not None
    rec.result = rec.error = None
    before = seams.rng_states()
    try:
        if entry == "fit":
            rec.result = main_loop.fit_stacked_data(driver.user_args(limit), driver.X)
        elif entry == "front":
            kw = dict(window_size=driver.W, num_clusters=driver.K, sparsity_weight=driver.lam,
                      label_switching_cost=driver.beta, iteration_limit=limit,
                      min_meaningful_covariance=driver.eps, num_processors=1,
                      min_cluster_size=driver.m, biased_covariance=driver.biased)
            if driver.joint:
                rec.result = fast_ticc.ticc_joint_labels([s.copy() for s in driver.series], **kw)
            else:
                rec.result = fast_ticc.ticc_labels(driver.series[0].copy(), **kw)
        else:
            raise HarnessError(entry)
    except HarnessError:
        raise
    except Exception as e:
        rec.error = e
    after = seams.rng_states()
    rec.rng_clean = (before == after)
    rec.events = TRACER.events
    rec.label_calls = TRACER.label_calls
    rec.admm_calls = TRACER.admm_calls
    rec.sampler_log = list(TRACER.sampler.log)
    rec.unscripted = list(TRACER.sampler.unscripted)
    rec.rounds = TRACER.rounds()
    rec.final = TRACER.final_state()
    rec.pools = TRACER.pools
    if TRACER.sampler.script:
        raise HarnessError(f"donor script not consumed: {TRACER.sampler.script} (init {init})")
    return rec


def stacked_labels(rec):
    """result labels on the stacked index space (margins removed)"""
    r = rec.result
    d = rec.driver
    if rec.entry == "fit":
        return [int(x) for x in r.point_labels]
    front = (d.W - 1) // 2
    if d.joint:
        out = []
        for lab, n in zip(r.point_labels, d.lengths):
            out += [int(x) for x in lab[front:front + n]]
        return out
    return [int(x) for x in r.point_labels[front:front + d.lengths[0]]]


# ====================================================================== model
class Model:
    """Transition function F of the main loop, computed by the real phase
    functions on brand-new states (no state carried between rounds)."""

    def __init__(self, driver):
        self.d = driver
        self.memo = {}
        self.transitions = 0

    def key(self, labels, spreads, repop, script, args=None):
        sp = None if spreads is None else tuple(bits(s) for s in spreads)
        return (tuple(labels), sp, bool(repop), tuple(script), None if args is None else seams.digest_args(args))

    def F(self, labels, spreads, repop, script, args=None):
        """args: the hyper-parameter bundle the real run's states carry (what the
        front end handed to the main loop); default: the driver's own"""
        k = self.key(labels, spreads, repop, script, args)
        if k in self.memo:
            return self.memo[k]
        from fast_ticc.containers import model_state
        o = TRACER.orig
        d = self.d
        m = model_state.ModelState.empty_model(d.user_args(1) if args is None else args.shallow_copy(), d.X)
        m.point_labels = [int(x) for x in labels]
        if spreads is not None:
            for c, s in zip(m.clusters, spreads):
                c.computed_covariance = np.array([[s]])
        saved = (TRACER.events, TRACER.label_calls, TRACER.admm_calls, TRACER.deep, TRACER._round)
        TRACER.events, TRACER.label_calls, TRACER.admm_calls = [], [], []
        TRACER.deep = False
        TRACER.sampler.reset(script)
        try:
            try:
                if repop:
                    m = o["repop"](m)
                post = tuple(int(x) for x in m.point_labels)
                m = o["stats"](m, d.X)
                m = o["opt"](m, d.X, seams.VirtualPool())
                m = o["relabel"](m, d.X)
                out = ("ok", post, tuple(int(x) for x in m.point_labels),
                       bits(m.label_assignment_cost),
                       tuple(c.train_inverse.tobytes() for c in m.clusters),
                       tuple(float(np.linalg.norm(c.computed_covariance)) for c in m.clusters))
            except HarnessError:
                raise
            except Exception as e:
                out = ("raise", type(e).__name__, str(e))
        finally:
            (TRACER.events, TRACER.label_calls, TRACER.admm_calls, TRACER.deep, TRACER._round) = saved
        self.transitions += 1
        self.memo[k] = out
        return out


def conformance(rec, model):
    """Replay the real run's label path on the fresh-state model.  Returns
    (messages, states visited as keys)."""
    msgs = []
    states = []
    d = rec.driver
    cur = tuple(int(x) for x in rec.init)
    spreads = None
    rounds = rec.rounds
    run_args = None
    if rounds and "stats" in rounds[0] and rounds[0]["stats"].get("in") is not None:
        run_args = rounds[0]["stats"]["in"].arguments
    for i, rd in enumerate(rounds):
        if "relabel" not in rd or "out" not in rd.get("relabel", {}):
            break       # the real run raised in this round; judged elsewhere
        script = tuple(c for (_n, _k, c) in rd["repop"].get("sampler_used", [])) if "repop" in rd else ()
        out = model.F(cur, spreads, i > 0, script, run_args)
        states.append((cur, None if spreads is None else tuple(bits(s) for s in spreads)))
        real = rd["relabel"]["out"]
        if out[0] != "ok":
            msgs.append(f"round {i}: model transition raised {out[1]}: {out[2]} but the real run went on")
            break
        _, post, nxt, cost, mrfs, spr = out
        got_post = tuple(int(x) for x in rd["stats"]["in"].point_labels)
        if got_post != post:
            msgs.append(f"round {i}: labelling entering the statistics phase {got_post} != model {post}")
            break
        got = tuple(int(x) for x in real.point_labels)
        if got != nxt:
            msgs.append(f"round {i}: relabelled to {got}, fresh-state model gives {nxt} (from {cur})")
            break
        if bits(real.label_assignment_cost) != cost:
            msgs.append(f"round {i}: cost {float(real.label_assignment_cost)!r} differs from fresh-state model")
            break
        if tuple(c.train_inverse.tobytes() for c in real.clusters) != mrfs:
            msgs.append(f"round {i}: MRFs differ from fresh-state model (stale state carried between rounds?)")
            break
        cur, spreads = nxt, spr
    return msgs, states


# ====================================================================== helpers for monitors
def ref_table(X, means, thetas):
    """reference log-likelihood table and its per-entry scale; NaN where the
    cluster's parameters are not finite / not PD"""
    T, K = X.shape[0], len(thetas)
    tab = np.full((T, K), np.nan)
    scale = np.full((T, K), np.nan)
    for k in range(K):
        th, mu = thetas[k], means[k]
        if th is None or mu is None or not np.all(np.isfinite(th)) or not np.all(np.isfinite(mu)):
            continue
        try:
            np.linalg.cholesky(th)
            cond = float(np.linalg.cond(th))
        except np.linalg.LinAlgError:
            continue
        for i in range(T):
            tab[i, k], scale[i, k] = refs.gaussian_logpdf_precision(X[i], mu, th, cond)
    return tab, scale


def within_series_switch_cost(labels, bvec, boundaries):
    c = 0.0
    tot = 0.0
    bset = set(boundaries)
    for i in range(len(labels) - 1):
        if labels[i] != labels[i + 1] and i not in bset:
            c += float(bvec[i])
        tot += abs(float(bvec[i]))
    return c, tot


def all_pairs_switch_cost(labels, bvec):
    return sum(float(bvec[i]) for i in range(len(labels) - 1) if labels[i] != labels[i + 1])


def final_round(rec):
    rds = [rd for rd in rec.rounds if "relabel" in rd and "out" in rd["relabel"]]
    return len(rds), (rds[-1] if rds else None)


def cluster_sizes(labels, K):
    s = [0] * K
    for l in labels:
        s[int(l)] += 1
    return s


def exit_reason(rec):
    n, last = final_round(rec)
    if n >= 2:
        a = [int(x) for x in rec.rounds[n - 1]["relabel"]["out"].point_labels]
        b = [int(x) for x in rec.rounds[n - 2]["relabel"]["out"].point_labels]
        if a == b:
            return "fixed_point"
    return "limit"


# ====================================================================== monitors
# every monitor: (rec) -> list of (message, signature-or-None)

def mon_seams(rec):
    out = []
    if not rec.rng_clean:
        out.append(("a global random generator was consumed during a fully scripted run", None))
    if rec.unscripted:
        out.append((f"donor selection used unscripted randomness: {rec.unscripted}", None))
    return out


def mon_c09(rec):
    """bounded; stops only at a fixed point; returns what it scored"""
    out = []
    d = rec.driver
    if rec.error is not None:
        return out
    n, last = final_round(rec)
    if not 1 <= n <= rec.limit:
        out.append((f"{n} rounds with iteration_limit {rec.limit}", None))
        return out
    prev_out = None
    for i, rd in enumerate(rec.rounds):
        order = [p for p in rd.get("_order", [])]
        want = ["stats", "opt", "relabel"]
        core = [p for p in order if p != "repop"]
        if core != want:
            out.append((f"round {i}: phase order {order}", None))
            return out
        if "repop" in rd and order[0] != "repop":
            out.append((f"round {i}: repopulation after the statistics phase: {order}", None))
        # chaining by content
        if rd["opt"]["in_before"] != rd["stats"]["out_parts"]:
            out.append((f"round {i}: optimiser not fed the statistics phase's output", None))
        if rd["relabel"]["in_before"] != rd["opt"]["out_parts"]:
            out.append((f"round {i}: relabelling not fed the optimiser's output", None))
        enter = tuple(int(x) for x in rd["stats"]["in"].point_labels)
        used = rd["repop"].get("sampler_used", []) if "repop" in rd else []
        if i == 0:
            if used or tuple(rec.init) != enter:
                out.append((f"round 0: statistics fitted to {enter}, initial labelling was {tuple(rec.init)}"
                            f"{' (donor draw in round 0)' if used else ''}", None))
        else:
            prev = tuple(int(x) for x in prev_out.point_labels)
            small = min(cluster_sizes(prev, d.K)) < 2
            if used and not small:
                out.append((f"round {i}: donor draw although every cluster had >= 2 points", None))
            if not used and enter != prev:
                out.append((f"round {i}: labelling changed between rounds without repopulation: "
                            f"{prev} -> {enter}", None))
        prev_out = rd["relabel"]["out"]
    labs = [tuple(int(x) for x in rd["relabel"]["out"].point_labels) for rd in rec.rounds[:n]]
    if n < rec.limit and (n < 2 or labs[-1] != labs[-2]):
        out.append((f"stopped after {n} < {rec.limit} rounds without two identical consecutive labellings", None))
    # returns what it scored
    st = last["relabel"]["out"]
    got = tuple(stacked_labels(rec))
    if got != labs[-1]:
        out.append((f"returned labels {got} are not the last round's {labs[-1]}", None))
    if bits(rec.result.label_assignment_cost) != bits(st.label_assignment_cost):
        out.append((f"returned cost {rec.result.label_assignment_cost!r} is not the last round's "
                    f"{st.label_assignment_cost!r}", None))
    mr = rec.result.markov_random_fields
    if len(mr) != d.K or any(np.asarray(a).tobytes() != c.train_inverse.tobytes()
                             for a, c in zip(mr, st.clusters)):
        out.append(("returned MRFs are not those of the last round", None))
    # the returned labelling is a minimum-cost labelling for the returned model
    means = [c.stacked_data_mean for c in st.clusters]
    tab, scale = ref_table(d.X, means, list(mr))
    if np.all(np.isfinite(tab)) and not getattr(rec, "scripted_relabel", False):
        bvec = refs.beta_vector(d.beta, d.Tp)
        if d.joint and np.ndim(d.beta) == 0:
            pass        # joint objective is judged by C07
        else:
            cost_tab = -tab
            obj = refs.label_objective(cost_tab, bvec, list(got))
            best = refs.dp_min(cost_tab, bvec)
            tol = 1e-9 * (float(np.nansum(scale)) + d.Tp * float(np.max(np.abs(bvec)))) + 1e-12
            if obj > best + tol:
                out.append((f"returned labelling costs {obj!r} under the returned model, "
                            f"minimum is {best!r} (tol {tol:.3g})", None))
            if abs(float(rec.result.label_assignment_cost) - obj) > tol:
                out.append((f"reported cost {float(rec.result.label_assignment_cost)!r} != objective of the "
                            f"returned labelling under the returned model {obj!r}", None))
    return out


def mon_c12(rec):
    """each cluster fitted to exactly its own windows, requested estimator"""
    out = []
    d = rec.driver
    from fast_ticc import matrix_compression
    for i, rd in enumerate(rec.rounds):
        if "stats" not in rd or "out" not in rd["stats"]:
            continue
        labels = [int(x) for x in rd["stats"]["in"].point_labels]
        st = rd["stats"]["out"]
        calls = [c for c in rec.admm_calls if c["round"] == i]
        for k in range(d.K):
            members = [p for p, l in enumerate(labels) if l == k]
            if not members:
                continue
            c = st.clusters[k]
            if len(members) == 1 and not d.biased:
                continue            # undefined under the unbiased estimator
            mean, cov = refs.mean_cov(d.X[members], d.biased)
            sc = float(np.max(np.abs(d.X[members]))) or 1e-300
            spread = float(np.max(np.abs(d.X[members] - mean))) or 1e-300
            # what a careful (mean-subtracting) estimator can lose: centred values carry ~eps*|x| error
            tol_mean = 64 * 2.3e-16 * sc + 1e-12 * spread
            tol_cov = 1e-10 * spread * spread + 256 * 2.3e-16 * sc * spread
            if c.stacked_data_mean is None or np.shape(c.stacked_data_mean) != mean.shape or \
                    not np.allclose(c.stacked_data_mean, mean, rtol=0, atol=tol_mean):
                out.append((f"round {i} cluster {k}: mean is not the mean of its {len(members)} windows", None))
                continue
            # (a single stacked column makes np.cov return a 0-d array: same value, accepted)
            got_cov = None if c.empirical_covariance is None else np.atleast_2d(c.empirical_covariance)
            if got_cov is None or got_cov.shape != cov.shape or \
                    not np.allclose(got_cov, cov, rtol=0, atol=tol_cov):
                rb = refs.mean_cov(d.X[members], not d.biased)[1]
                hint = " (matches the other estimator)" if got_cov is not None and got_cov.shape == rb.shape and \
                    np.allclose(got_cov, rb, rtol=0, atol=tol_cov) else ""
                out.append((f"round {i} cluster {k}: covariance is not the "
                            f"{'biased' if d.biased else 'unbiased'} sample covariance of its windows{hint}", None))
                continue
        if "opt" in rd and "out" in rd["opt"]:
            if len(calls) != d.K:
                out.append((f"round {i}: {len(calls)} optimiser calls for {d.K} clusters", None))
                continue
            for k in range(d.K):
                S = st.clusters[k].empirical_covariance
                match = [c for c in calls if isinstance(c["args"][0], np.ndarray)
                         and c["args"][0].shape == np.shape(S)
                         and c["args"][0].tobytes() == np.asarray(S).tobytes()]
                if not match:
                    out.append((f"round {i} cluster {k}: the optimiser was not given this cluster's covariance", None))
                    continue
                c = match[0]
                a = list(c["args"]) + [None] * 4
                kw = c["kwargs"]
                lam = a[1] if a[1] is not None else kw.get("sparsity_weight")
                Wv = a[2] if a[2] is not None else kw.get("window_size")
                Nv = a[3] if a[3] is not None else kw.get("num_data_series")
                same_lam = (isinstance(lam, np.ndarray) and isinstance(d.lam, np.ndarray)
                            and lam.shape == d.lam.shape and lam.tobytes() == d.lam.tobytes()) or \
                           (not isinstance(lam, np.ndarray) and not isinstance(d.lam, np.ndarray)
                            and float(lam) == float(d.lam))
                if not same_lam or int(Wv) != d.W or int(Nv) != d.N:
                    out.append((f"round {i} cluster {k}: optimiser got lambda={_short(lam)}, W={Wv}, N={Nv}; "
                                f"user asked lambda={_short(d.lam)}, W={d.W}, N={d.N}", None))
                if "result" in c:
                    full = matrix_compression.reinflate_matrix(c["result"])
                    got = rd["opt"]["out"].clusters[k].train_inverse
                    keep = np.abs(full) >= d.eps if d.eps > 0 else np.ones(full.shape, dtype=bool)
                    if got is None or got.shape != full.shape or \
                            not np.array_equal(np.where(keep, got, 0), np.where(keep, full, 0), equal_nan=True):
                        out.append((f"round {i} cluster {k}: stored MRF is not the optimiser's answer for this "
                                    f"cluster's covariance", None))
    return out


def mon_c13(rec):
    """partition invariant at every phase boundary; no phase alters its input"""
    out = []
    d = rec.driver
    for ev in rec.events:
        tag = ev["phase"]
        if tag in ("bic", "ch", "cll"):
            if ev.get("in_changed"):
                out.append((f"{tag}: altered the model state it was given: {ev['in_changed'][:4]}", None))
            continue
        if ev.get("in_changed"):
            out.append((f"round {ev['round']} phase {tag}: altered the state it was given: "
                        f"{ev['in_changed'][:4]}", None))
        st = ev.get("out")
        if st is None:
            continue
        msg = partition_violation(st, d.K, d.Tp)
        if msg:
            out.append((f"round {ev['round']} after {tag}: {msg}", None))
    return out


def partition_violation(st, K, T=None):
    if len(st.clusters) != K:
        return f"{len(st.clusters)} clusters, expected {K}"
    labels = st.point_labels
    if labels is None:
        return None
    labels = [int(x) for x in labels]
    if T is not None and len(labels) != T:
        return f"{len(labels)} labels for {T} points"
    for k in range(K):
        want = [i for i, l in enumerate(labels) if l == k]
        got = [int(x) for x in st.clusters[k].member_points]
        if got != want:
            return f"cluster {k} members {got} != points labelled {k}: {want}"
    if any(not -1 <= l < K for l in labels):
        return f"label outside [-1,{K})"
    return None


def final_params(rec):
    st = rec.final
    if st is None:
        return None
    return ([c.stacked_data_mean for c in st.clusters], [c.train_inverse for c in st.clusters],
            [c.empirical_covariance for c in st.clusters])


def mon_c05(rec):
    """tables handed to the labelling step and result likelihoods are exact log-densities"""
    out = []
    d = rec.driver
    for i, rd in enumerate(rec.rounds):
        if "opt" not in rd or "out" not in rd["opt"]:
            continue
        st = rd["opt"]["out"]
        calls = [c for c in rec.label_calls if c["round"] == i]
        if not calls:
            continue
        tab, scale = ref_table(d.X, [c.stacked_data_mean for c in st.clusters],
                               [c.train_inverse for c in st.clusters])
        got = -np.asarray(calls[0]["table"], dtype=np.float64)
        if got.shape != tab.shape:
            out.append((f"round {i}: labelling step got a {got.shape} table for {tab.shape}", None))
            continue
        ok = np.isfinite(tab)
        bad = ok & ~(np.abs(got - tab) <= 1e-10 * scale)
        if bad.any():
            p, k = np.argwhere(bad)[0]
            out.append((f"round {i}: log-likelihood of point {p} under cluster {k} is {got[p, k]!r}, "
                        f"Gaussian log-density is {tab[p, k]!r}", None))
    if rec.error is None and rec.final is not None:
        means, thetas, _ = final_params(rec)
        labels = stacked_labels(rec)
        tab, scale = ref_table(d.X, means, thetas)
        want = [tab[i, l] for i, l in enumerate(labels)]
        sc = [scale[i, l] for i, l in enumerate(labels)]
        got = [float(x) for x in rec.result.all_log_likelihood]
        if np.all(np.isfinite(want)):
            if len(got) != len(want):
                out.append((f"{len(got)} per-point log-likelihoods for {len(want)} labelled points", None))
            else:
                gs, ws = np.sort(got), np.sort(want)
                tol = 1e-10 * max(sc)
                if not np.all(np.abs(gs - ws) <= tol):
                    j = int(np.argmax(np.abs(gs - ws)))
                    out.append((f"per-point log-likelihoods differ from the Gaussian log-densities "
                                f"(sorted position {j}: {gs[j]!r} vs {ws[j]!r})", None))
    return out


def mon_c06(rec):
    """result fields are mutually consistent"""
    out = []
    d = rec.driver
    if rec.error is not None:
        return out
    r = rec.result
    labels = stacked_labels(rec)
    all_ll = [float(x) for x in r.all_log_likelihood]
    # (2) one entry per labelled point
    if d.joint:
        nlab = sum(1 for lab in r.point_labels for x in lab if int(x) != -1)
    else:
        nlab = sum(1 for x in r.point_labels if int(x) != -1)
    if len(all_ll) != nlab:
        out.append((f"{len(all_ll)} per-point log-likelihood entries for {nlab} labelled points", None))
    if not np.all(np.isfinite(all_ll)) or not np.isfinite(float(r.label_assignment_cost)):
        return out + [("__nonfinite__", "skip")]
    # (3) sum / mean / median
    s = math.fsum(all_ll)
    sa = math.fsum(abs(x) for x in all_ll) + 1e-300
    if abs(float(r.overall_log_likelihood) - s) > 1e-12 * sa:
        out.append((f"overall log-likelihood {float(r.overall_log_likelihood)!r} != sum of entries {s!r}", None))
    if all_ll:
        mx = max(abs(x) for x in all_ll) + 1e-300
        if abs(float(r.overall_log_likelihood_mean) - s / len(all_ll)) > 1e-12 * mx * 4:
            out.append((f"overall mean {float(r.overall_log_likelihood_mean)!r} != mean of entries "
                        f"{s / len(all_ll)!r}", None))
        if abs(float(r.overall_log_likelihood_median) - float(np.median(all_ll))) > 1e-12 * mx:
            out.append((f"overall median {float(r.overall_log_likelihood_median)!r} != median of entries "
                        f"{float(np.median(all_ll))!r}", None))
    # (4) per-cluster mean / median over the points labelled with that cluster
    if rec.final is not None:
        means, thetas, _ = final_params(rec)
        tab, scale = ref_table(d.X, means, thetas)
        for k in range(d.K):
            vals = [tab[i, k] for i, l in enumerate(labels) if l == k]
            gm = float(np.asarray(r.cluster_log_likelihood_mean)[k])
            gmed = float(np.asarray(r.cluster_log_likelihood_median)[k])
            if not vals:
                if gm != 0 or gmed != 0:
                    out.append((f"cluster {k} has no point but mean/median {gm!r}/{gmed!r} (expected 0)", None))
                continue
            if not np.all(np.isfinite(vals)):
                continue
            tol = 1e-10 * max(scale[i, k] for i, l in enumerate(labels) if l == k)
            if abs(gm - float(np.mean(vals))) > tol or abs(gmed - float(np.median(vals))) > tol:
                out.append((f"cluster {k}: mean/median {gm!r}/{gmed!r} are not those of its "
                            f"{len(vals)} points ({float(np.mean(vals))!r}/{float(np.median(vals))!r})", None))
    # (1) cost = -overall + within-series switching cost
    bvec = refs.beta_vector(d.beta, d.Tp)
    sw, tot = within_series_switch_cost(labels, bvec, d.boundaries() if d.joint else [])
    want = -float(r.overall_log_likelihood) + sw
    tol = 1e-9 * (sa + tot + d.Tp * float(np.max(np.abs(bvec)) if len(bvec) else 0.0)) + 1e-12
    got = float(r.label_assignment_cost)
    if abs(got - want) > tol:
        sig = None
        if d.joint and np.ndim(d.beta) == 0:
            alt = -float(r.overall_log_likelihood) + all_pairs_switch_cost(labels, bvec)
            if abs(got - alt) <= tol:
                sig = "joint-boundary-priced"
        out.append((f"label_assignment_cost {got!r} != -overall_log_likelihood + within-series switching "
                    f"cost = {want!r} (tol {tol:.3g})", sig))
    return out


def mon_c16(rec):
    out = []
    d = rec.driver
    if rec.error is not None or rec.final is None:
        return out
    means, thetas, covs = final_params(rec)
    # S_k is the covariance cluster k was FITTED to: the output of the last statistics phase, and
    # Theta_k what the run returns - not whatever the state handed to the metric happens to hold
    n, last = final_round(rec)
    if last is not None and "stats" in last and "out" in last["stats"]:
        covs = [c.empirical_covariance for c in last["stats"]["out"].clusters]
    thetas = [np.asarray(a) for a in rec.result.markov_random_fields]
    labels = stacked_labels(rec)
    try:
        want, scale = refs.bic(labels, thetas, covs)
    except np.linalg.LinAlgError:
        return [("__notpd__", "skip")]
    got = float(rec.result.bayesian_information_criterion)
    if not np.isfinite(want):
        return [("__nonfinite__", "skip")]
    if not np.isfinite(got):
        out.append((f"BIC is {got!r} although every MRF is positive definite (definition gives {want!r})", None))
    elif abs(got - want) > 1e-10 * scale + 1e-12:
        out.append((f"BIC {got!r} != definition {want!r}", None))
    return out


def mon_c17(rec):
    out = []
    d = rec.driver
    if rec.error is not None or d.K < 2:
        return out
    labels = stacked_labels(rec)
    if exit_reason(rec) != "fixed_point" or min(cluster_sizes(labels, d.K)) < 1:
        return [("__notconverged__", "skip")]
    want = refs.calinski_harabasz(d.X, labels, d.K, "column")
    got = float(rec.result.calinski_harabasz_index)
    if not np.isfinite(want):
        return [("__nonfinite__", "skip")]
    if not abs(got - want) <= 1e-9 * abs(want) + 1e-12:
        alt = refs.calinski_harabasz(d.X, labels, d.K, "scalar")
        sig = "ch-scalar-centre" if abs(got - alt) <= 1e-9 * abs(alt) + 1e-12 else None
        out.append((f"Calinski-Harabasz index {got!r} != definition {want!r}", sig))
    return out


def spd_violation(a, name):
    a = np.asarray(a)
    if a.dtype.kind not in "fiu" or np.iscomplexobj(a):
        return f"{name} is not real ({a.dtype})"
    if not np.all(np.isfinite(a)):
        return f"{name} has non-finite entries"
    if a.ndim != 2 or a.shape[0] != a.shape[1]:
        return f"{name} is not square {a.shape}"
    if not np.array_equal(a, a.T):
        return f"{name} is not symmetric (max asymmetry {float(np.max(np.abs(a - a.T))):.3g})"
    try:
        np.linalg.cholesky(a)
    except np.linalg.LinAlgError:
        w = np.linalg.eigvalsh(a)
        return f"{name} is not positive definite (min eigenvalue {w[0]:.3g})"
    return None


def mon_c03(rec):
    """every MRF returned or scored against is finite, symmetric, PD (for
    clusters whose covariance is defined); every float of the result finite"""
    out = []
    d = rec.driver
    defined_all = True
    for i, rd in enumerate(rec.rounds):
        if "opt" not in rd or "out" not in rd["opt"]:
            continue
        labels = [int(x) for x in rd["stats"]["in"].point_labels]
        sizes = cluster_sizes(labels, d.K)
        for k, c in enumerate(rd["opt"]["out"].clusters):
            if sizes[k] < 2 and not (d.biased and sizes[k] >= 1):
                defined_all = False
                # a one-window cluster has no covariance under the unbiased estimator.  The library can
                # only meet one in round 0 (initial labelling) or when it refills with m = 1; from round 1
                # on, with m >= 2, repopulation guarantees >= 2 windows, so a NaN MRF there is a verdict.
                if i == 0 or d.m < 2:
                    continue
            if d.eps > 0:
                continue        # the floor may legitimately break definiteness; clause (b) is kernel-level
            msg = spd_violation(c.train_inverse, f"round {i} MRF {k}")
            if msg:
                out.append((msg, None))
            elif c.log_determinant is not None and not np.isfinite(c.log_determinant):
                out.append((f"round {i} MRF {k}: stored log-determinant {c.log_determinant!r}", None))
    if rec.error is None and defined_all:
        r = rec.result
        for f in ("bayesian_information_criterion", "label_assignment_cost", "overall_log_likelihood",
                  "overall_log_likelihood_mean", "overall_log_likelihood_median"):
            if not np.isfinite(float(getattr(r, f))):
                out.append((f"result.{f} = {getattr(r, f)!r}", None))
        for f in ("all_log_likelihood", "cluster_log_likelihood_mean", "cluster_log_likelihood_median"):
            if not np.all(np.isfinite(np.asarray(getattr(r, f), dtype=np.float64))):
                out.append((f"result.{f} has non-finite entries", None))
    return out


def mon_c07(rec):
    """joint runs: labelling minimises, and cost equals, assignment cost +
    within-series switching cost"""
    out = []
    d = rec.driver
    if rec.error is not None or not d.joint:
        return out
    n, last = final_round(rec)
    calls = [c for c in rec.label_calls if c["round"] == n - 1]
    if not calls:
        raise HarnessError("labelling step not observed")
    call = calls[0]
    table = np.asarray(call["table"], dtype=np.float64)
    if len(calls) != 1 or table.shape != (d.Tp, d.K):
        # the labelling step was not handed the whole table in one call: judge against the reference table of
        # the model the round fitted
        st = last["opt"]["out"]
        tab, _ = ref_table(d.X, [c.stacked_data_mean for c in st.clusters], [c.train_inverse for c in st.clusters])
        table = -tab
    if not np.all(np.isfinite(table)):
        return [("__nonfinite__", "skip")]
    labels = stacked_labels(rec)
    user = refs.beta_vector(d.beta, d.Tp)
    within = user.copy()
    for b in d.boundaries():
        within[b] = 0.0
    obj = refs.label_objective(table, within, labels)
    best = refs.dp_min(table, within)
    tol = 1e-9 * (float(np.sum(np.abs(table).max(axis=1))) + d.Tp * float(np.max(np.abs(user)))) + 1e-12
    got = float(rec.result.label_assignment_cost)
    bad = []
    if obj > best + tol:
        bad.append(f"returned labelling costs {obj!r} with boundary pairs free, minimum is {best!r}")
    if abs(got - obj) > tol:
        bad.append(f"reported cost {got!r} != assignment + within-series switching cost {obj!r}")
    if bad:
        # classification: exactly the all-pairs objective with the user's scalar reaching the labelling step?
        sig = None
        seen = call["beta"]
        if np.ndim(d.beta) == 0 and np.ndim(seen) == 0 and float(seen) == float(d.beta):
            allobj = refs.label_objective(table, user, labels)
            allbest = refs.dp_min(table, user)
            if allobj <= allbest + tol and abs(got - allobj) <= tol:
                sig = "joint-boundary-priced"
        for b in bad:
            out.append((b, sig))
    return out


MONITORS = {"seams": mon_seams, "C03": mon_c03, "C05": mon_c05, "C06": mon_c06, "C07": mon_c07,
            "C09": mon_c09, "C12": mon_c12, "C13": mon_c13, "C16": mon_c16, "C17": mon_c17}


# ====================================================================== exploration
DRIVERS = {}


def driver(name):
    def deco(fn):
        DRIVERS[name] = fn
        return fn
    return deco


_DRV_CACHE = {}


def get_driver(name, seed=0):
    key = (name, seed)
    if key not in _DRV_CACHE:
        _DRV_CACHE[key] = DRIVERS[name](seed)
    return _DRV_CACHE[key]


def subsets_menu(n, k, cap=64):
    total = math.comb(n, k)
    if total <= cap:
        return [tuple(c) for c in itertools.combinations(range(n), k)], False
    menu = [tuple(range(k)), tuple(range(n - k, n)), tuple(range(0, 2 * k, 2))]
    return [m for i, m in enumerate(menu) if m not in menu[:i]], True


def explore_inits(spec):
    """Worker: spec = dict(driver, seed, inits, limits, bound, entry, monitors, conform)
    Runs every (init, limit, donor script within the deviation bound)."""
    from vlib.ctx import Acc, stopped
    from vlib import lib
    lib.load(spec.get("mode", "nojit"))
    acc = Acc(max_fails=3)
    d = get_driver(spec["driver"], spec["seed"])
    model = Model(d)
    mons = [MONITORS[m] for m in spec["monitors"]]
    states = set()
    finals = set()
    capped = False
    for init in spec["inits"]:
        if stopped():
            break
        for limit in spec["limits"]:
            stack = [()]
            while stack:
                script = stack.pop()
                rec = real_run(d, init, limit, script, entry=spec["entry"])
                acc.n += 1
                case = {"driver": spec["driver"], "seed": spec["seed"], "init": list(init), "limit": limit,
                        "script": [list(s) for s in script], "entry": spec["entry"], "mode": spec.get("mode", "nojit")}
                # -- donor-script deviations (children of this run)
                log = rec.sampler_log
                for j in range(len(script), len(log)):
                    (n, k, _choice) = log[j]
                    devs = sum(1 for (_n, kk, c) in log[:j] if c != tuple(range(kk)))
                    if devs + 1 > spec["bound"]:
                        continue
                    menu, cap = subsets_menu(n, k, spec.get("subset_cap", 64))
                    capped = capped or cap
                    prefix = tuple(c for (_n, _k, c) in log[:j])
                    for alt in menu:
                        if alt != tuple(range(k)):
                            stack.append(prefix + (alt,))
                # -- verdicts
                if rec.error is not None:
                    acc.count("runs_raised", type(rec.error).__name__)
                    judge_error = spec.get("judge_error")
                    if judge_error:
                        for (msg, sig) in judge_error(rec):
                            acc.fail(case, msg, sig)
                else:
                    nr, _ = final_round(rec)
                    acc.count("rounds", nr)
                    acc.count("exit", exit_reason(rec))
                    finals.add(tuple(stacked_labels(rec)))
                for (msg, _sig) in mon_seams(rec):
                    # not a property violation by itself: recorded, so that a reader of the
                    # evidence knows the scripted seams did not own all nondeterminism
                    acc.count("seam_warnings", msg[:60])
                if log:
                    acc.count("runs_with_repopulation")
                    acc.count("donor_draws", by=len(log))
                nontrivial = rec.error is None and len(rec.rounds) >= 2
                skipped = False
                for mon in mons:
                    for (msg, sig) in mon(rec):
                        if sig == "skip":
                            acc.count("monitor_skips", msg.strip("_"))
                            skipped = True
                            continue
                        acc.fail(case, msg, sig)
                if spec["conform"]:
                    msgs, sts = conformance(rec, model)
                    states.update(sts)
                    for msg in msgs:
                        acc.fail(case, "conformance: " + msg, None)
                    if rec.error is None and not msgs:
                        acc.count("traces_validated")
                if nontrivial:
                    acc.nontrivial += 1
                if acc.n % 97 == 1 + (spec["seed"] % 7):
                    acc.sample({"driver": spec["driver"], "init": list(init), "limit": limit,
                                "donor_script": [list(s) for s in script],
                                "label_path": [[int(x) for x in rd["relabel"]["out"].point_labels]
                                               for rd in rec.rounds if "relabel" in rd and "out" in rd["relabel"]],
                                "raised": None if rec.error is None else repr(rec.error)[:80]})
    res = acc.result()
    res["states"] = [hash(s) for s in states]
    res["transitions"] = model.transitions
    res["finals"] = [hash(f) for f in finals]
    res["capped"] = capped
    return res


def explore(ctx, plans, chunk=16):
    """plans: list of dict(driver, inits, limits, bound, entry, monitors, conform)
    Shards every plan over the workers and merges the coverage."""
    tasks = []
    for p in plans:
        inits = list(p["inits"])
        for lo in range(0, len(inits), chunk):
            t = dict(p)
            t["inits"] = inits[lo:lo + chunk]
            t["seed"] = p.get("seed", 0)
            tasks.append(t)
    results = ctx.pmap(explore_inits, tasks)
    states, finals = set(), set()
    transitions = 0
    capped = False
    for r in results:
        ctx.take(r)
        states.update(r["states"])
        finals.update(r["finals"])
        transitions += r["transitions"]
        capped = capped or r["capped"]
    if any(p.get("conform") for p in plans):
        ctx.cov["states"] = ctx.cov.get("states", 0) + len(states)
        ctx.cov["transitions"] = ctx.cov.get("transitions", 0) + transitions
        ctx.cov["traces_validated_against_impl"] = ctx.cov.get("stats", {}).get("traces_validated", 0)
    ctx.cov["distinct_final_labellings"] = ctx.cov.get("distinct_final_labellings", 0) + len(finals)
    if capped:
        ctx.cov["donor_subset_cap_hit"] = True
    return results


def all_labellings(T, K):
    return list(itertools.product(range(K), repeat=T))


def block_labellings(T, K):
    """contiguous-block initial labellings (so runs complete)"""
    out = []
    base = [min(K - 1, (i * K) // T) for i in range(T)]
    out.append(tuple(base))
    out.append(tuple(reversed(base)))
    return out


def replay_case(ctx, case, monitors, conform=True, judge_error=None):
    from vlib import lib
    lib.load(case.get("mode", "nojit"))
    d = get_driver(case["driver"], case.get("seed", 0))
    rec = real_run(d, tuple(case["init"]), case["limit"], [tuple(s) for s in case["script"]],
                   entry=case["entry"])
    ctx.cov["evaluations"] = 1
    msgs = []
    for name in monitors:
        for (msg, sig) in MONITORS[name](rec):
            if sig != "skip":
                msgs.append((msg, sig))
    if rec.error is not None and judge_error:
        msgs += list(judge_error(rec))
    if conform:
        m, _ = conformance(rec, Model(d))
        msgs += [("conformance: " + x, None) for x in m]
    for (msg, sig) in msgs:
        ctx.violation(case, msg, sig)
    return rec


def e2_plans(ctx, menu, monitors, entry="fit", conform=True, inits="all"):
    """menu: list of (driver, limits, bound)"""
    out = []
    for entry_ in menu:
        (name, limits, bound) = entry_[:3]
        d = get_driver(name, ctx.seed)
        ii = all_labellings(d.Tp, d.K) if inits == "all" else inits(d)
        # every m-subset per donor draw only where the run count stays affordable (small drivers, bound <= 1)
        cap = entry_[3] if len(entry_) > 3 else (64 if (ctx.thorough and bound <= 1 and len(ii) <= 256) else 10)
        out.append(dict(driver=name, seed=ctx.seed, inits=ii, limits=limits, bound=bound, entry=entry,
                        monitors=monitors, conform=conform, subset_cap=cap))
    return out


def e2_describe(ctx, ps, extra_rule=""):
    ctx.cov["drivers"] = [get_driver(p["driver"], ctx.seed).describe() | {
        "limits": p["limits"], "donor_deviation_bound": p["bound"], "initial_labellings": len(p["inits"]),
        "entry": p["entry"]} for p in ps]
    ctx.cov["exhaustive"] = True
    ctx.cov["rule"] = (
        "evaluations = complete real runs under scripted seams (every listed initial labelling x limit x "
        "donor script with at most `donor_deviation_bound` non-default draws; all C(n,m) subsets per draw "
        "when <= 64 (quick: <= 10), else first/last/alternating); states = distinct (labelling, donor spreads) "
        "reached; transitions = applications of the fresh-state transition function; traces_validated = runs "
        "whose every round matched the fresh-state model bitwise; distinct_nontrivial = completed runs with "
        ">= 2 rounds. " + extra_rule)
    ctx.assumptions += [
        "the initial labelling, the donor draw and the pool are the only environment answers (checked: "
        "both global RNG states bit-identical before/after every scripted run)"]
