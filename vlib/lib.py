"""Import the package under test from $VERIF_REPO/src, in a chosen JIT mode."""
import os
import sys
import warnings

from vlib.ctx import REPO, HarnessError

_loaded = None


def load(mode="nojit"):
    """mode: 'nojit' (NUMBA_DISABLE_JIT=1, how the pinned suite runs),
    'jit', or 'absent' (numba not importable).  One mode per process."""
    global _loaded
    if _loaded is not None:
        if _loaded != mode:
            raise HarnessError(f"package already loaded in mode {_loaded}, wanted {mode}")
        return sys.modules["fast_ticc"]
    if "fast_ticc" in sys.modules or "numba" in sys.modules:
        raise HarnessError("fast_ticc/numba imported before vlib.lib.load()")
    if mode == "nojit":
        os.environ["NUMBA_DISABLE_JIT"] = "1"
    elif mode == "jit":
        os.environ.pop("NUMBA_DISABLE_JIT", None)
    elif mode == "absent":
        os.environ.pop("NUMBA_DISABLE_JIT", None)
        sys.modules["numba"] = None          # import numba -> ImportError
    else:
        raise HarnessError(f"unknown mode {mode}")
    src = os.path.join(REPO, "src")
    if src not in sys.path:
        sys.path.insert(0, src)
    warnings.simplefilter("ignore")
    import fast_ticc
    if not os.path.abspath(fast_ticc.__file__).startswith(os.path.abspath(src) + os.sep):
        raise HarnessError(f"fast_ticc imported from {fast_ticc.__file__}, expected {src}")
    # make sure sub-modules the harness patches are loaded
    import fast_ticc.main_loop  # noqa: F401
    import fast_ticc.admm.solver  # noqa: F401
    _loaded = mode
    return fast_ticc
