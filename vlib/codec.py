"""JSON encoding of replay cases that keeps bit patterns (arrays as hex)."""
import numpy as np


def enc(o):
    if isinstance(o, np.ndarray):
        a = np.ascontiguousarray(o)
        return {"__nd__": str(a.dtype), "shape": list(a.shape),
                "fortran": bool(o.flags.f_contiguous and not o.flags.c_contiguous),
                "hex": a.tobytes().hex(),
                "repr": np.array2string(a, threshold=40, precision=6) if a.size <= 40 else None}
    if isinstance(o, (np.floating,)):
        return {"__npf__": str(o.dtype), "hex": np.asarray(o).tobytes().hex(), "repr": repr(float(o))}
    if isinstance(o, (np.integer,)):
        return {"__npi__": str(o.dtype), "v": int(o)}
    if isinstance(o, float):
        return {"__f__": o.hex()}
    if isinstance(o, (list, tuple)):
        return [enc(x) for x in o]
    if isinstance(o, dict):
        return {str(k): enc(v) for k, v in o.items()}
    return o


def dec(o):
    if isinstance(o, dict):
        if "__nd__" in o:
            a = np.frombuffer(bytes.fromhex(o["hex"]), dtype=np.dtype(o["__nd__"])).reshape(o["shape"]).copy()
            if o.get("fortran"):
                a = np.asfortranarray(a)
            return a
        if "__npf__" in o:
            return np.frombuffer(bytes.fromhex(o["hex"]), dtype=np.dtype(o["__npf__"]))[0]
        if "__npi__" in o:
            return np.dtype(o["__npi__"]).type(o["v"])
        if "__f__" in o:
            return float.fromhex(o["__f__"])
        return {k: dec(v) for k, v in o.items()}
    if isinstance(o, list):
        return [dec(x) for x in o]
    return o


def bits(x):
    """bit pattern of a float (NaN-safe equality)"""
    return np.float64(x).tobytes()


def same_bits(a, b):
    a = np.asarray(a)
    b = np.asarray(b)
    return a.shape == b.shape and a.dtype == b.dtype and a.tobytes() == b.tobytes()
