"""Reference models.  Boring on purpose, written from the property statements
(definitions), never importing the package under test."""
import itertools
import math

import numpy as np


# ------------------------------------------------------------------ labelling
def beta_vector(beta, T):
    """beta given as a scalar or as a length-T vector; entry i prices (i,i+1)."""
    b = np.asarray(beta, dtype=np.float64)
    if b.ndim == 0:
        return np.full(T, float(b))
    return b.astype(np.float64)


def label_objective(table, bvec, seq):
    T = len(seq)
    c = 0.0
    for i in range(T):
        c += float(table[i][seq[i]])
    for i in range(T - 1):
        if seq[i] != seq[i + 1]:
            c += float(bvec[i])
    return c


_SEQ_CACHE = {}


def all_sequences(T, K):
    key = (T, K)
    if key not in _SEQ_CACHE:
        seqs = np.array(list(itertools.product(range(K), repeat=T)), dtype=np.int64).reshape(-1, T)
        onehot = np.zeros((seqs.shape[0], T * K))
        for i in range(T):
            onehot[np.arange(seqs.shape[0]), i * K + seqs[:, i]] = 1.0
        diff = (seqs[:, :-1] != seqs[:, 1:]).astype(np.float64) if T > 1 else np.zeros((seqs.shape[0], 0))
        _SEQ_CACHE[key] = (seqs, onehot, diff)
    return _SEQ_CACHE[key]


def brute_force_min(tables, bvec):
    """tables: (B,T,K).  Minimum objective over all K^T sequences, per table.
    Exact when all values are integers (every partial sum is exact)."""
    B, T, K = tables.shape
    seqs, onehot, diff = all_sequences(T, K)
    assign = tables.reshape(B, T * K) @ onehot.T          # (B,S)
    switch = diff @ np.asarray(bvec, dtype=np.float64)[:T - 1] if T > 1 else np.zeros(seqs.shape[0])
    return (assign + switch[None, :]).min(axis=1)


def dp_min(table, bvec):
    """Forward DP (different recurrence direction from the code under test)."""
    table = np.asarray(table, dtype=np.float64)
    T, K = table.shape
    f = table[0].copy()
    for i in range(1, T):
        m = f.min() + bvec[i - 1]
        f = table[i] + np.minimum(f, m)
    return float(f.min())


def dp_min_with_path(table, bvec):
    table = np.asarray(table, dtype=np.float64)
    T, K = table.shape
    f = table[0].copy()
    back = np.zeros((T, K), dtype=np.int64)
    for i in range(1, T):
        j = int(np.argmin(f))
        m = f[j] + bvec[i - 1]
        stay = f <= m
        back[i] = np.where(stay, np.arange(K), j)
        f = table[i] + np.where(stay, f, m)
    k = int(np.argmin(f))
    path = [k]
    for i in range(T - 1, 0, -1):
        k = int(back[i][k])
        path.append(k)
    return float(f.min()), path[::-1]


# ------------------------------------------------------------------ Gaussian
def chol_logdet(theta):
    L = np.linalg.cholesky(theta)
    return 2.0 * float(np.sum(np.log(np.diag(L)))), L


def gaussian_logpdf_precision(x, mu, theta, cond=1.0):
    """log N(x; mu, theta^{-1}); returns (value, scale): 1e-10*scale is the tolerance
    a correct binary64 evaluation is held to.  scale = the magnitudes that were added,
    plus (when the caller passes cond(theta)) the conditioning term: ANY binary64
    evaluation of log det and of the quadratic form carries ~n*cond*eps relative error."""
    nw = theta.shape[0]
    logdet, L = chol_logdet(theta)
    d = np.asarray(x, dtype=np.float64) - np.asarray(mu, dtype=np.float64)
    y = L.T @ d
    quad = float(y @ y)
    val = 0.5 * (logdet - quad - nw * math.log(2 * math.pi))
    scale = abs(logdet) + quad + nw * math.log(2 * math.pi)
    if cond > 1e3:
        scale += 32 * nw * cond * 2.3e-16 * (1.0 + quad) / 1e-10
    return val, scale


# ------------------------------------------------------------------ statistics
def mean_cov(rows, biased):
    """Two-pass, fsum-accurate sample mean / covariance of a list of rows."""
    rows = np.asarray(rows, dtype=np.float64)
    n, d = rows.shape
    mean = np.array([math.fsum(rows[:, j]) / n for j in range(d)])
    div = n if biased else n - 1
    cov = np.empty((d, d))
    c = rows - mean
    for a in range(d):
        for b in range(a, d):
            s = math.fsum(c[:, a] * c[:, b])
            cov[a, b] = cov[b, a] = (s / div) if div > 0 else float("nan")
    return mean, cov


# ------------------------------------------------------------------ metrics
def bic(labels, thetas, covs, threshold=2e-5):
    """P ln T - 2 sum_k (ln det Theta_k - tr(Theta_k S_k))"""
    T = len(labels)
    mod = 0.0
    scale = 0.0
    params = []
    for th, S in zip(thetas, covs):
        ld, _ = chol_logdet(th)
        tr = float(np.sum(th * S.T))
        mod += ld - tr
        scale += abs(ld) + abs(tr)
        cond = float(np.linalg.cond(th))
        if cond > 1e3:      # any binary64 log-determinant / trace carries ~n*cond*eps relative error
            scale += 32 * th.shape[0] * cond * 2.3e-16 * (1.0 + abs(ld) + abs(tr)) / 1e-10
        params.append(int(np.sum(np.abs(th) > threshold)))
    P = 0
    last = None
    for l in labels:
        if l != last:
            P += params[l]
            last = l
    return P * math.log(T) - 2 * mod, P * math.log(T) + 2 * scale


def calinski_harabasz(X, labels, K, centre="column"):
    X = np.asarray(X, dtype=np.float64)
    T = X.shape[0]
    g = X.mean(axis=0) if centre == "column" else np.full(X.shape[1], X.mean())
    B = 0.0
    Wd = 0.0
    for k in range(K):
        idx = [i for i, l in enumerate(labels) if l == k]
        if not idx:
            continue
        mk = X[idx].mean(axis=0)
        B += len(idx) * float(np.sum((mk - g) ** 2))
        Wd += float(np.sum((X[idx] - mk) ** 2))
    if Wd == 0:
        return float("nan")
    return (B / (K - 1)) / (Wd / (T - K))


# ------------------------------------------------------------------ Toeplitz
def toeplitz_classes(N, W):
    """Upper-triangle positions grouped by class, from the definition:
    (block offset, row in block, column in block)."""
    n = N * W
    d = {}
    for i in range(n):
        for j in range(i, n):
            d.setdefault((j // N - i // N, i % N, j % N), []).append((i, j))
    return d


def row_major_rank(r, c, n):
    """rank of (r,c), r<=c, in the row-major upper triangle of an n x n matrix"""
    k = 0
    for i in range(r):
        k += n - i
    return k + (c - r)


# ------------------------------------------------------------------ KKT certificate (C02)
def kkt_certificate(S, lam, W, N, x_full, abs_tol=1e-6, rel_tol=1e-6):
    """Returns (worst KKT ratio, worst Toeplitz ratio, detail).  Ratio <= 1 is
    implied by the stopping rule (see DESIGN.md C02); the check allows slack."""
    n = N * W
    L = np.full((n, n), float(lam)) if np.ndim(lam) == 0 else np.asarray(lam, dtype=np.float64)
    xinv = np.linalg.inv(x_full)
    G = S - xinv
    iu = np.triu_indices(n)
    absterm = math.sqrt(len(iu[0])) * abs_tol + 1e-4
    eps_pri = (absterm + rel_tol * np.linalg.norm(x_full[iu])) / (1 - rel_tol)
    eps_dual = (absterm + rel_tol * np.linalg.norm(G[iu])) / (1 - rel_tol)
    worst = 0.0
    worst_toep = 0.0
    detail = None
    for key, pos in toeplitz_classes(N, W).items():
        r = [p[0] for p in pos]
        c = [p[1] for p in pos]
        R = len(pos)
        vals = x_full[r, c]
        m = float(vals.mean())
        toep = float(vals.max() - vals.min()) / (2 * eps_pri)
        if toep > worst_toep:
            worst_toep = toep
        g = float(G[r, c].sum())
        l = float(L[r, c].sum())
        delta = eps_pri / math.sqrt(R)
        tol = math.sqrt(R) * eps_dual
        if m > delta:
            res = abs(g + l)
        elif m < -delta:
            res = abs(g - l)
        else:
            res = max(0.0, abs(g) - l)
        if res / tol > worst:
            worst = res / tol
            detail = {"class": list(key), "m": m, "g": g, "l": l, "tol": tol}
    return worst, worst_toep, detail


def glasso_objective(S, lam, theta):
    L = np.full(theta.shape, float(lam)) if np.ndim(lam) == 0 else np.asarray(lam, dtype=np.float64)
    ld, _ = chol_logdet(theta)
    return -ld + float(np.sum(S * theta)) + float(np.sum(L * np.abs(theta)))


# ------------------------------------------------------------------ repopulation
def repopulate_reference(sizes, m, spreads):
    """sizes: cluster sizes in the input; spreads: donor ranking key.
    Returns ('same', sizes, {}) | ('error', None, None) | ('ok', sizes, donations)
    For ties in spread the donor choice is not determined: donations is then
    None and only the size multiset rules apply (see check)."""
    orig = list(sizes)
    sizes = list(sizes)
    needy = [k for k, n in enumerate(sizes) if n < 2]
    if not needy:
        return ("same", sizes, {})
    don = {}
    for k in needy:
        elig = [j for j, n in enumerate(sizes) if n >= 2 * m and orig[j] >= 2 * m and j not in needy]
        if not elig:
            return ("error", None, None)
        best = max(spreads[j] for j in elig)
        cands = [j for j in elig if spreads[j] == best]
        d = cands[0]
        sizes[d] -= m
        sizes[k] += m
        don[d] = don.get(d, 0) + 1
    return ("ok", sizes, don)
