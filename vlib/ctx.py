"""Check context: verdict bookkeeping, known findings, evidence, parallel map."""
import collections
import concurrent.futures
import json
import multiprocessing
import os
import sys
import time

VERIF = os.path.dirname(os.path.dirname(os.path.abspath(__file__)))
REPO = os.environ.get("VERIF_REPO", "/repo")
NCPU = int(os.environ.get("VERIF_JOBS", "16"))

_REAL_OUT = None
# set by any worker once it has recorded enough failing cases: remaining work
# units return early (a failed run is a violation whatever else it covers)
STOP = multiprocessing.Value("i", 0)


def stopped():
    return STOP.value >= 3


class HarnessError(Exception):
    """The harness lost control of a seam (never reported as a violation)."""


def scratch_dir(prefix):
    """a private scratch directory under replays/ (created on demand: replays/ is not under version control)"""
    import tempfile
    base = os.path.join(VERIF, "replays")
    os.makedirs(base, exist_ok=True)
    return tempfile.mkdtemp(prefix=prefix, dir=base)


def silence_stdout():
    """fd 1 -> /dev/null for this process and all children; keep the real one."""
    global _REAL_OUT
    if _REAL_OUT is not None:
        return
    sys.stdout.flush()
    saved = os.dup(1)
    _REAL_OUT = os.fdopen(saved, "w", buffering=1)
    devnull = os.open(os.devnull, os.O_WRONLY)
    os.dup2(devnull, 1)
    os.close(devnull)
    sys.stdout = open(os.devnull, "w")


def emit(line):
    out = _REAL_OUT if _REAL_OUT is not None else sys.__stdout__
    out.write(line.rstrip("\n") + "\n")
    out.flush()


def load_known():
    path = os.path.join(VERIF, "known_findings.json")
    if not os.path.exists(path):
        return []
    with open(path) as f:
        return json.load(f).get("findings", [])


def _raised_inside_package(exc):
    """True if the innermost frames of the traceback are in the package under test"""
    import traceback
    src = os.path.join(os.path.abspath(REPO), "src") + os.sep
    frames = traceback.extract_tb(exc.__traceback__)
    for fr in reversed(frames):
        fn = os.path.abspath(fr.filename)
        if fn.startswith(src):
            return True
        if fn.startswith(VERIF + os.sep):
            return False
    return False


def _guarded(payload):
    """Worker wrapper: an exception that escapes from the package under test on an input the check
    considers valid is a verdict (the property promised a result), not a harness failure."""
    (fn, task) = payload
    try:
        return fn(task)
    except HarnessError:
        raise
    except Exception as e:
        if not _raised_inside_package(e):
            raise
        import traceback
        tb = "".join(traceback.format_exception(type(e), e, e.__traceback__))[-1500:]
        acc = Acc()
        acc.n = 1
        acc.fail({"unguarded_task": repr(task)[:500], "traceback": tb},
                 f"the package raised {type(e).__name__}: {e} on an input of the enumeration (task {repr(task)[:120]})")
        return acc.result()


class Ctx:
    def __init__(self, prop, tier, seed, level="exploration"):
        self.prop = prop
        self.tier = tier
        self.seed = seed
        self.level = level
        self.thorough = tier == "thorough"
        self.cov = collections.OrderedDict()
        self.cov["evaluations"] = 0
        self.cov["distinct_nontrivial"] = 0
        self.cov["rule"] = ""
        self.cov["samples"] = []
        self.assumptions = []
        self.violations = []        # (replay path, message)
        self.known_hits = collections.OrderedDict()   # signature -> (finding, count, example)
        self.known = [k for k in load_known() if k.get("property") == prop]
        self.replaying = False
        self._nreplay = 0
        self.notes = []

    # ---------------------------------------------------------------- verdicts
    def violation(self, case, message, signature=None):
        """Record one failing case.  ``signature`` names the failure mode as
        decided by the check's own classification predicate; only a signature
        listed in known_findings.json is demoted to KNOWN-FINDING."""
        if signature is not None:
            for k in self.known:
                if k.get("signature") == signature:
                    hit = self.known_hits.get(signature)
                    if hit is None:
                        self.known_hits[signature] = [k, 1, message]
                    else:
                        hit[1] += 1
                    return
        if len(self.violations) >= 5:       # keep the first (smallest) ones
            self.violations.append((None, message))
            return
        d = os.path.join(VERIF, "replays", self.prop)
        os.makedirs(d, exist_ok=True)
        self._nreplay += 1
        name = ("replayed_" if self.replaying else "") + f"{self._nreplay:03d}.json"
        path = os.path.join(d, name)
        with open(path, "w") as f:
            json.dump({"property": self.prop, "message": message,
                       "signature": signature, "case": case}, f, indent=1)
        self.violations.append((path, message))

    def take(self, res):
        """Merge one worker result (dict from Acc.result())."""
        self.cov["evaluations"] += res.get("n", 0)
        self.cov["distinct_nontrivial"] += res.get("nontrivial", 0)
        for (case, msg, sig) in res.get("fails", []):
            self.violation(case, msg, sig)
        for k, v in res.get("stats", {}).items():
            st = self.cov.setdefault("stats", {})
            if isinstance(v, dict):
                sub = st.setdefault(k, {})
                for kk, vv in v.items():
                    sub[kk] = sub.get(kk, 0) + vv
            elif k.startswith("max_"):
                st[k] = max(st.get(k, v), v)
            elif k.startswith("min_"):
                st[k] = min(st.get(k, v), v)
            else:
                st[k] = st.get(k, 0) + v
        for s in res.get("samples", []):
            self.sample(s)

    def sample(self, s, cap=6):
        if len(self.cov["samples"]) < cap:
            self.cov["samples"].append(s)

    # ---------------------------------------------------------------- parallel
    def pmap(self, fn, tasks, jobs=None):
        """Run fn(task) for every task in forked, non-daemonic workers
        (children may create the library's own pool).  Results in task order.
        A worker exception is a harness error."""
        tasks = list(tasks)
        jobs = min(jobs or NCPU, max(1, len(tasks)))
        t0 = time.time()
        try:
            return self._pmap(fn, tasks, jobs)
        finally:
            if os.environ.get("VERIF_TIMING"):
                sys.stderr.write(f"  [pmap {fn.__module__}.{fn.__name__}: {len(tasks)} tasks, "
                                 f"{time.time() - t0:.1f}s]\n")

    def _pmap(self, fn, tasks, jobs):
        if jobs == 1 or os.environ.get("VERIF_SERIAL"):
            return [_guarded((fn, t)) for t in tasks]
        mpctx = multiprocessing.get_context("fork")
        with concurrent.futures.ProcessPoolExecutor(jobs, mp_context=mpctx) as ex:
            futs = [ex.submit(_guarded, (fn, t)) for t in tasks]
            out = []
            for f in futs:
                try:
                    out.append(f.result())
                except Exception as e:
                    for g in futs:
                        g.cancel()
                    raise HarnessError(f"worker failed: {e!r}") from e
            return out

    # ---------------------------------------------------------------- finish
    def finish(self, wall, write_evidence=True):
        for sig, (k, n, msg) in self.known_hits.items():
            n = max(n, self.cov.get("stats", {}).get("failures_by_signature", {}).get(sig, 0))
            emit(f"KNOWN-FINDING: property={self.prop} {k.get('what', sig)} "
                 f"[{sig}; observed {n}x]")
        nviol = len(self.violations)
        for (path, msg) in self.violations[:5]:
            if path is not None:
                emit(f"VIOLATION property={self.prop} replay={path}")
                sys.stderr.write(f"  {self.prop}: {msg}\n")
        if write_evidence:
            self.write_evidence(wall, nviol)
        return 1 if nviol else 0

    def write_evidence(self, wall, nviol):
        cov = dict(self.cov)
        if self.known_hits:
            by = cov.get("stats", {}).get("failures_by_signature", {})
            cov["known_findings_observed"] = {s: max(v[1], by.get(s, 0)) for s, v in self.known_hits.items()}
        if self.notes:
            cov["notes"] = self.notes
        ev = {
            "property_id": self.prop,
            "tier": self.tier,
            "seed": self.seed,
            "level": self.level,
            "coverage": cov,
            "assumptions": self.assumptions,
            "wall_s": round(wall, 2),
            "violations": nviol,
        }
        # runs pointed at a scratch copy (mutant demonstrations) must not
        # overwrite the evidence of /repo
        d = os.path.join(VERIF, "evidence") if os.path.abspath(REPO) == "/repo" else \
            os.path.join(VERIF, "replays", "_scratch_evidence")
        os.makedirs(d, exist_ok=True)
        tmp = os.path.join(d, f".{self.prop}.json.tmp")
        with open(tmp, "w") as f:
            json.dump(ev, f, indent=1, default=_jsonable)
            f.write("\n")
        os.replace(tmp, os.path.join(d, f"{self.prop}.json"))


def _jsonable(o):
    import numpy as np
    if isinstance(o, (np.integer,)):
        return int(o)
    if isinstance(o, (np.floating,)):
        return float(o)
    if isinstance(o, np.ndarray):
        return o.tolist()
    if isinstance(o, (set, frozenset, tuple)):
        return list(o)
    return repr(o)


class Acc:
    """Per-worker accumulator; .result() is what Ctx.take() merges."""

    def __init__(self, max_fails=3, max_samples=2):
        self.n = 0
        self.nontrivial = 0
        self.fails = []
        self.stats = {}
        self.samples = []
        self.max_fails = max_fails
        self.max_samples = max_samples

    def count(self, key, sub=None, by=1):
        if sub is None:
            self.stats[key] = self.stats.get(key, 0) + by
        else:
            d = self.stats.setdefault(key, {})
            d[str(sub)] = d.get(str(sub), 0) + by

    def peak(self, key, v):
        v = float(v)
        if key.startswith("min_"):
            self.stats[key] = min(self.stats.get(key, v), v)
        else:
            self.stats[key] = max(self.stats.get(key, v), v)

    def fail(self, case, msg, sig=None):
        self.count("failures")
        self.count("failures_by_signature", sig or "unclassified")
        if sig is None:
            with STOP.get_lock():
                STOP.value += 1
        # keep distinct signatures even beyond the cap so that classification
        # (known finding vs. violation) never depends on the cap
        sigs = {f[2] for f in self.fails}
        if len(self.fails) < self.max_fails or sig not in sigs:
            self.fails.append((case, msg, sig))

    def sample(self, s):
        if len(self.samples) < self.max_samples:
            self.samples.append(s)

    def result(self):
        return {"n": self.n, "nontrivial": self.nontrivial, "fails": self.fails,
                "stats": self.stats, "samples": self.samples}
