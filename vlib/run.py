"""Runner: ./check <ID> [--tier quick|thorough] [--replay FILE]

Contract (MANIFEST.json): exit 0 if the property held on everything explored
(printing a KNOWN-FINDING line per listed finding that was observed), exit 1
with a line ``VIOLATION property=<id> replay=<path>`` otherwise.  Evidence is
rewritten on every run.  Exit 2 = harness error (never a verdict).
"""
import argparse
import importlib
import json
import os
import sys
import time
import traceback


def main(argv=None):
    ap = argparse.ArgumentParser()
    ap.add_argument("prop")
    ap.add_argument("--tier", default=os.environ.get("VERIF_TIER", "quick"),
                    choices=["quick", "thorough"])
    ap.add_argument("--replay", default=None)
    ap.add_argument("--mode", default=None,
                    help="internal: run a mode-runner workload in this process")
    ap.add_argument("--arg", default=None)
    ns = ap.parse_args(argv)

    prop = ns.prop.upper()
    try:
        seed = int(os.environ.get("VERIF_SEED", "0"))
    except ValueError:
        seed = 0

    from vlib import ctx as ctxmod
    ctxmod.silence_stdout()          # library prints its arguments on every run

    modname = "checks." + prop.lower()
    try:
        mod = importlib.import_module(modname)
    except ModuleNotFoundError as e:
        if e.name == modname:
            ctxmod.emit(f"no check for {prop}")
            return 2
        raise

    if ns.mode is not None:          # sub-process workload (mode runner)
        return int(mod.mode_main(ns.mode, ns.arg, ns.tier, seed) or 0)

    ctx = ctxmod.Ctx(prop, ns.tier, seed, level=getattr(mod, "LEVEL", "exploration"))
    t0 = time.time()
    try:
        if ns.replay:
            with open(ns.replay) as f:
                rec = json.load(f)
            if rec.get("property") != prop:
                ctxmod.emit(f"replay file is for {rec.get('property')}, not {prop}")
                return 2
            ctx.replaying = True
            mod.replay(ctx, rec["case"])
            return ctx.finish(time.time() - t0, write_evidence=False)
        mod.run(ctx)
    except ctxmod.HarnessError as e:
        ctxmod.emit(f"HARNESS-ERROR property={prop} {e}")
        traceback.print_exc()
        return 2
    except Exception:                # a crash of the harness is not a verdict
        ctxmod.emit(f"HARNESS-ERROR property={prop} unexpected exception")
        traceback.print_exc()
        return 2
    return ctx.finish(time.time() - t0)


if __name__ == "__main__":
    sys.exit(main())
