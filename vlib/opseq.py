"""E3 - operation-sequence explorer over real ModelState objects (C13a, C08b).

A state of the search is the *operation history* that reaches it; live objects
are rebuilt by replaying the history from a fresh empty model (the library's
own copies are what is under test, so they are not used for bookkeeping).
Every object produced along a history stays live; after the last operation
every earlier object must be unchanged and every object must satisfy the
partition invariant.  Deduplication: content digest of the newest state +
its aliasing pattern with the older live states.
"""
import collections

import numpy as np

from vlib import seams
from vlib.ctx import HarnessError
from vlib.mainloop import partition_violation
from vlib.seams import TRACER

LABEL_MENU = {
    "bal": lambda T, K: [i * K // T for i in range(T)],
    "empty": lambda T, K: [min(K - 2, i * (K - 1) // T) if K > 1 else 0 for i in range(T)],   # last cluster empty
    "single": lambda T, K: [0] * (T - 1) + [K - 1],                                       # one singleton
    "one": lambda T, K: [0] * T,
    "inter": lambda T, K: [i % K for i in range(T)],
    # -1 = "point not labelled" (documented): such points belong to no cluster
    "unl": lambda T, K: [-1 if i % 3 == 0 else (i % K) for i in range(T)],
}


class World:
    def __init__(self, X, K, W, lam, beta, m, eps=0.0, biased=False):
        self.X, self.K, self.W, self.lam, self.beta, self.m, self.eps, self.biased = X, K, W, lam, beta, m, eps, biased
        self.T = X.shape[0]

    def args(self):
        from fast_ticc.containers import arguments
        lam = self.lam.copy() if isinstance(self.lam, np.ndarray) else self.lam
        beta = self.beta.copy() if isinstance(self.beta, np.ndarray) else self.beta
        return arguments.UserArguments(
            sparsity_weight=lam, iteration_limit=5, label_switching_cost=beta, min_cluster_size=self.m,
            min_meaningful_covariance=self.eps, num_clusters=self.K, num_processors=1,
            window_size=self.W, biased_covariance=self.biased)


OWNING = ("assign", "assign_direct", "deep_copy", "stats", "opt", "relabel")


def owned_after(op, before, after):
    """does the state produced by `op` own its clusters' member lists?  (A model-level shallow copy, and a
    repopulation that had nothing to do and returned its argument, share cluster objects by design.)"""
    if op[0] in OWNING:
        return True
    if op[0] == "repop":
        return after is not before
    return False


def ops_alphabet():
    ops = [("assign", name) for name in LABEL_MENU]
    ops += [("assign_direct", name) for name in ("bal", "single", "inter", "unl")]
    ops += [("deep_copy",), ("shallow_copy",), ("stats",), ("opt",), ("relabel",),
            ("repop", "first"), ("repop", "last")]
    return ops


class NotOwned(Exception):
    pass


def apply_op(world, s, op, owned=True):
    """returns the new state; raises if the operation is not enabled in s"""
    o = TRACER.orig
    kind = op[0]
    if kind == "assign_direct":
        # the plain setter on a state that owns its clusters (output of a phase, of a deep copy or of
        # the copy-then-assign idiom): membership must be re-derived, and no OTHER live state may change
        if not owned:
            raise NotOwned()
        s.point_labels = list(LABEL_MENU[op[1]](world.T, world.K))
        return s
    if kind == "assign":
        # the library's own idiom for "a state I own": shallow copy + copied clusters
        t = s.shallow_copy()
        t.clusters = [c.deep_copy() for c in s.clusters]
        t.point_labels = list(LABEL_MENU[op[1]](world.T, world.K))
        return t
    if kind == "deep_copy":
        return s.deep_copy()
    if kind == "shallow_copy":
        return s.shallow_copy()
    if kind == "stats":
        return o["stats"](s, world.X)
    if kind == "opt":
        return o["opt"](s, world.X, seams.VirtualPool())
    if kind == "relabel":
        return o["relabel"](s, world.X)
    if kind == "repop":
        TRACER.sampler.reset(())
        TRACER.sampler.default_mode = op[1]
        try:
            return o["repop"](s)
        finally:
            TRACER.sampler.default_mode = "first"
    raise HarnessError(op)


def mutable_components(st):
    """(name, object) for every mutable sub-object of a model state"""
    out = [("clusters(list)", st.clusters)]
    if st.point_labels is not None:
        out.append(("point_labels", st.point_labels))
    for f in ("point_log_likelihood", "stacked_training_data"):
        v = getattr(st, f)
        if isinstance(v, np.ndarray) and v.dtype != object:      # 0-d arrays are mutable too
            out.append((f, v))
    for f in ("sparsity_weight", "label_switching_cost"):
        v = getattr(st.arguments, f)
        if isinstance(v, np.ndarray) and v.dtype != object:
            out.append((f"arguments.{f}", v))
    out.append(("arguments(object)", st.arguments))
    for k, c in enumerate(st.clusters):
        out.append((f"cluster{k}(object)", c))
        out.append((f"cluster{k}.member_points", c.member_points))
        for f in seams.CLUSTER_FIELDS:
            v = getattr(c, f)
            if isinstance(v, np.ndarray) and v.dtype != object and v.size > 0:
                out.append((f"cluster{k}.{f}", v))
    return out


def shared(a, b):
    if isinstance(a, np.ndarray) and isinstance(b, np.ndarray):
        return a.size > 0 and b.size > 0 and np.shares_memory(a, b)
    return a is b


def aliasing(newest, older):
    sig = set()
    comps = mutable_components(newest)
    for o in older:
        oc = mutable_components(o)
        for (n1, a) in comps:
            for (n2, b) in oc:
                if shared(a, b):
                    sig.add(n1)
    return tuple(sorted(sig))


def content_equal_where_set(src, cp):
    """fields that are set in the source must be equal in the copy"""
    bad = []
    if src.point_labels is not None and list(cp.point_labels) != list(src.point_labels):
        bad.append("point_labels")
    if src.label_assignment_cost is not None and \
            np.float64(cp.label_assignment_cost).tobytes() != np.float64(src.label_assignment_cost).tobytes():
        bad.append("label_assignment_cost")
    if seams.digest_args(src.arguments) != seams.digest_args(cp.arguments):
        bad.append("arguments")
    if len(src.clusters) != len(cp.clusters):
        return bad + ["number of clusters"]
    for k, (a, b) in enumerate(zip(src.clusters, cp.clusters)):
        if list(a.member_points) != list(b.member_points):
            bad.append(f"cluster{k}.member_points")
        for f in seams.CLUSTER_FIELDS:
            va, vb = getattr(a, f), getattr(b, f)
            if va is None:
                continue
            if isinstance(va, np.ndarray):
                if not (isinstance(vb, np.ndarray) and va.shape == vb.shape and va.tobytes() == vb.tobytes()):
                    bad.append(f"cluster{k}.{f}")
            elif np.float64(va).tobytes() != np.float64(vb).tobytes():
                bad.append(f"cluster{k}.{f}")
    return bad


def poke(obj):
    """mutate a mutable component in place; returns an undo callable"""
    if isinstance(obj, np.ndarray):
        if not obj.flags.writeable:
            return None
        old = obj.flat[0]
        obj.flat[0] = old + 1 if np.isfinite(old) else 0.0
        return lambda: obj.__setitem__(tuple([0] * obj.ndim), old)
    if isinstance(obj, list):
        obj.append(12345)
        return obj.pop
    return None


def deep_copy_independent(src, cp):
    """mutate every mutable component of the copy in turn and re-digest the
    source, and vice versa; returns names of shared components"""
    bad = []
    for (a, b, tag) in ((cp, src, "copy->source"), (src, cp, "source->copy")):
        for (name, obj) in mutable_components(a):
            if name.endswith("(object)"):
                continue
            before = seams.snapshot_parts(b)
            undo = poke(obj)
            if undo is None:
                continue
            try:
                changed = seams.describe_state_diff(b, before)
            finally:
                undo()
            if changed:
                bad.append(f"{name} ({tag}: {changed[:2]})")
    if cp.arguments is src.arguments:
        bad.append("arguments object is shared")
    if cp.clusters is src.clusters or any(x is y for x in cp.clusters for y in src.clusters):
        bad.append("cluster objects are shared")
    return bad


def run_history(world, hist):
    """rebuild live objects; returns (states list, None) or (None, exception at last op).
    A prefix that raises is a harness error (prefixes were enabled when explored)."""
    from fast_ticc.containers import model_state
    states = [model_state.ModelState.empty_model(world.args(), world.X)]
    owned = True
    for i, op in enumerate(hist):
        try:
            before = states[-1]
            states.append(apply_op(world, before, op, owned))
            owned = owned_after(op, before, states[-1]) if op[0] != "shallow_copy" else False
        except HarnessError:
            raise
        except Exception as e:
            if i == len(hist) - 1:
                return states, e
            raise HarnessError(f"prefix {hist[:i + 1]} no longer enabled: {e!r}")
    return states, None


def check_last_op(world, hist):
    """apply hist[:-1], snapshot everything, apply hist[-1], check invariants.
    returns (messages, newest state or None if disabled, key)"""
    from fast_ticc.containers import model_state
    msgs = []
    states, err = run_history(world, hist[:-1])
    if err is not None:
        raise HarnessError("prefix raised")
    snaps = [seams.snapshot_parts(s) for s in states]
    op = hist[-1]
    owned = True
    for j, o_ in enumerate(hist[:-1]):
        owned = owned_after(o_, states[j], states[j + 1])
    try:
        new = apply_op(world, states[-1], op, owned)
    except HarnessError:
        raise
    except Exception as e:
        # disabled here; the input must still be untouched
        for i, (s, sn) in enumerate(zip(states, snaps)):
            ch = seams.describe_state_diff(s, sn)
            if ch:
                msgs.append(f"{op} raised {type(e).__name__} and altered live state #{i}: {ch[:3]}")
        return msgs, None, None
    for i, (s, sn) in enumerate(zip(states, snaps)):
        if op[0] == "assign_direct" and s is new:
            continue                    # the state being assigned to
        ch = seams.describe_state_diff(s, sn)
        if ch:
            which = "the state it was given" if i == len(states) - 1 else f"an older live state (#{i})"
            msgs.append(f"{op} altered {which}: {ch[:4]}")
    if not isinstance(new, model_state.ModelState):
        msgs.append(f"{op} returned {type(new).__name__}")
        return msgs, None, None
    pv = partition_violation(new, world.K, world.T if new.point_labels is not None else None)
    if pv:
        msgs.append(f"after {op}: {pv}")
    if op[0] == "deep_copy":
        src = states[-1]
        bad = content_equal_where_set(src, new)
        if bad:
            msgs.append(f"deep copy differs from its source in {bad[:4]}")
        ind = deep_copy_independent(src, new)
        if ind:
            msgs.append(f"deep copy shares mutable state with its source: {ind[:4]}")
    if op[0] == "shallow_copy":
        bad = content_equal_where_set(states[-1], new)
        if bad:
            msgs.append(f"shallow copy differs from its source in {bad[:4]}")
    if op[0] in ("assign", "assign_direct"):
        want = list(LABEL_MENU[op[1]](world.T, world.K))
        if [int(x) for x in new.point_labels] != want:
            msgs.append(f"assigned {want}, state reports {new.point_labels}")
    key = (seams.digest_state(new), aliasing(new, states))
    return msgs, new, key


WORLDS = {}


def world(name):
    def deco(fn):
        WORLDS[name] = fn
        return fn
    return deco


_W = {}


def get_world(name):
    if name not in _W:
        _W[name] = WORLDS[name]()
    return _W[name]


def _level_work(task):
    from vlib import lib
    lib.load("nojit")
    TRACER.install()
    TRACER.deep = False
    (wname, hists) = task
    w = get_world(wname)
    out = []
    for h in hists:
        msgs, new, key = check_last_op(w, h)
        out.append((h, msgs, new is not None, key))
    return out


def bfs(ctx, wname, depth, alphabet=None, batch=24):
    """level-synchronous BFS; the parent deduplicates, workers apply one more op"""
    alphabet = alphabet or ops_alphabet()
    seen = set()
    frontier = [()]
    stats = collections.Counter()
    samples = []
    for level in range(1, depth + 1):
        cand = [h + (op,) for h in frontier for op in alphabet]
        tasks = [(wname, cand[i:i + batch]) for i in range(0, len(cand), batch)]
        nxt = []
        for res in ctx.pmap(_level_work, tasks):
            for (h, msgs, enabled, key) in res:
                stats["transitions"] += 1
                for m in msgs:
                    ctx.violation({"world": wname, "history": [list(o) for o in h]}, m)
                if not enabled:
                    stats["disabled"] += 1
                    continue
                stats["op_" + h[-1][0]] += 1
                if key in seen:
                    continue
                seen.add(key)
                if len(samples) < 3 and len(h) >= 3 and any(o[0] in ("relabel", "repop") for o in h):
                    samples.append([list(o) for o in h])
                nxt.append(h)
        frontier = nxt
        stats[f"frontier_depth_{level}"] = len(frontier)
        if ctx.violations:
            break
    stats["states"] = len(seen)
    return stats, samples
