"""Driver data sets for the main-loop explorer (small, sharp, fixed)."""
import numpy as np

from vlib.mainloop import Driver, driver, two_regime_series, three_regime_series


@driver("k2a")
def _k2a(seed):
    return Driver("k2a", [two_regime_series(9, 1, 3)], W=2, K=2, beta=1.0, m=2)


@driver("k2b")
def _k2b(seed):
    return Driver("k2b", [two_regime_series(11, 1, 3)], W=2, K=2, beta=1.0, m=2)


@driver("k2m1")
def _k2m1(seed):
    # m=1: a refilled cluster holds one point and is needy again next round
    return Driver("k2m1", [two_regime_series(9, 1, 5)], W=2, K=2, beta=3.0, m=1, biased=True)


@driver("k11")
def _k11(seed):
    # eleven clusters (two-digit cluster ids): eleven well separated levels with different spreads, 4 points each
    rng = np.random.default_rng(111)
    parts = [np.round(rng.normal(6.0 * k, 0.2 + 0.07 * k, size=(4, 1)), 3) for k in range(11)]
    return Driver("k11", [np.concatenate(parts)], W=1, K=11, beta=0.5, m=2, biased=True)


@driver("k2triu")
def _k2triu(seed):
    # a sparsity weight of which only the upper triangle is filled (the solver reads the upper triangle)
    s = two_regime_series(9, 2, 7)
    lam = np.triu(np.array([[0.1, 0.3, 0.05, 0.2], [0.3, 0.2, 0.15, 0.05],
                            [0.05, 0.15, 0.1, 0.3], [0.2, 0.05, 0.3, 0.2]]))
    return Driver("k2triu", [s], W=2, K=2, lam=lam, beta=2.0, m=2)


@driver("k2nptrue")
def _k2nptrue(seed):
    # the estimator flag as a NumPy boolean (what a comparison or an element of a boolean array gives)
    return Driver("k2nptrue", [two_regime_series(9, 1, 5)], W=2, K=2, beta=3.0, m=2, biased=np.bool_(True))


@driver("k2int1")
def _k2int1(seed):
    # ... and as the integer 1 / a NumPy false
    return Driver("k2int1", [two_regime_series(9, 1, 5)], W=2, K=2, beta=3.0, m=2, biased=1)


@driver("k2npfalse")
def _k2npfalse(seed):
    return Driver("k2npfalse", [two_regime_series(9, 1, 5)], W=2, K=2, beta=3.0, m=2, biased=np.bool_(False))


@driver("k2big")
def _k2big(seed):
    # huge beta: one cluster takes everything, runs end with an empty cluster
    return Driver("k2big", [two_regime_series(9, 1, 3)], W=2, K=2, beta=1e9, m=2)


@driver("k2zero")
def _k2zero(seed):
    return Driver("k2zero", [two_regime_series(9, 1, 3)], W=2, K=2, beta=0.0, m=2)


@driver("k2vec")
def _k2vec(seed):
    s = two_regime_series(9, 1, 3)
    beta = np.array([1.0, 0.0, 2.0, 0.5, 3.0, 0.0, 1.0, 7.0])
    return Driver("k2vec", [s], W=2, K=2, beta=beta, m=2)


@driver("k2mat")
def _k2mat(seed):
    s = two_regime_series(9, 2, 7)
    lam = np.array([[0.1, 0.3, 0.05, 0.2], [0.3, 0.2, 0.15, 0.05],
                    [0.05, 0.15, 0.1, 0.3], [0.2, 0.05, 0.3, 0.2]])
    return Driver("k2mat", [s], W=2, K=2, lam=lam, beta=2.0, m=2, biased=True)


@driver("k2eps")
def _k2eps(seed):
    return Driver("k2eps", [two_regime_series(10, 2, 11)], W=1, K=2, beta=1.0, m=2, eps=0.05)


@driver("k2eps2")
def _k2eps2(seed):
    # a floor large enough to zero off-diagonal entries that matter (NW = 4)
    return Driver("k2eps2", [two_regime_series(10, 2, 11)], W=2, K=2, beta=1.0, m=2, eps=0.15, biased=True)


@driver("k2tiny")
def _k2tiny(seed):
    # small units: within-cluster variances around 1e-8
    return Driver("k2tiny", [two_regime_series(9, 1, 3) * 1e-4], W=2, K=2, beta=1.0, m=2, biased=True)


@driver("k2lowvar")
def _k2lowvar(seed):
    # tiny spread on an offset of 5: consecutive rounds' statistics agree to ~1e-5 relative without being equal
    return Driver("k2lowvar", [5.0 + two_regime_series(9, 1, 3) * 1e-4], W=2, K=2, beta=1e-9, m=2, lam=1e-3)


@driver("k2huge")
def _k2huge(seed):
    return Driver("k2huge", [two_regime_series(9, 1, 3) * 1e3], W=2, K=2, beta=1.0, m=2)


@driver("k2e5")
def _k2e5(seed):
    # raw-unit data: standard deviation ~1e5, precision-matrix entries ~1e-10
    return Driver("k2e5", [two_regime_series(9, 1, 3) * 1e5], W=2, K=2, beta=1.0, m=2)


@driver("k2off")
def _k2off(seed):
    # small spread on a large additive offset (one-pass moment formulas cancel here)
    return Driver("k2off", [two_regime_series(9, 1, 3) * 0.05 + 1e6], W=2, K=2, beta=1.0, m=2, biased=True)


@driver("k2off7")
def _k2off7(seed):
    # the same on a 3e7 offset with unit spread: x'Tx - 2x'Tm + m'Tm loses every digit here, (x-m)'T(x-m) none
    return Driver("k2off7", [np.round(two_regime_series(9, 1, 3), 2) + 3e7], W=2, K=2, beta=1.0, m=2)


@driver("long24k")
def _long24k(seed):
    # 24000 stacked points (one label is < 0.005 % of them): for the long control skeleton of C09
    return Driver("long24k", [two_regime_series(24000, 1, 17, split=12000)], W=1, K=2, beta=1.0, m=2)


@driver("long6k")
def _long6k(seed):
    # clusters of more than 4096 windows (block-wise processing, 12-bit counters): 6200 stacked points
    return Driver("long6k", [two_regime_series(6201, 1, 11, split=5000)], W=2, K=2, beta=5.0, m=2)


def long_inits(d):
    """two initial labellings for the long driver: the regimes themselves (5000 / 1200) and a 4097 / 2103 split"""
    return [tuple(0 if i < 5000 else 1 for i in range(d.Tp)), tuple(1 if i < 4097 else 0 for i in range(d.Tp))]


@driver("k2tie")
def _k2tie(seed):
    # mirror-image data: with the labelling 1,1,1,1,0,0,0,0 the two fits are exact mirror images and the two
    # zeros tie EXACTLY between the clusters - which label a tie gets must not depend on the form of beta
    return Driver("k2tie", [np.array([[3.0], [2.0], [1.0], [0.0], [0.0], [-1.0], [-2.0], [-3.0]])], W=1, K=2, beta=0.0, m=2)


@driver("k2flat")
def _k2flat(seed):
    # a flat-lined sensor: the second sensor is constant over the first regime (sample variance exactly 0 there)
    s = two_regime_series(9, 2, 13)
    s[:5, 1] = 1.5
    return Driver("k2flat", [s], W=1, K=2, beta=1.0, m=2, biased=True)


@driver("k2one")
def _k2one(seed):
    # ONE regime, two clusters: clusters keep emptying and being refilled (repopulation in several rounds)
    rng = np.random.default_rng(1)
    return Driver("k2one", [np.round(rng.normal(0.0, 1.0, size=(9, 1)), 3)], W=1, K=2, beta=2.0, m=3)


@driver("k2w1")
def _k2w1(seed):
    # a single stacked column (one sensor, window 1): np.cov returns a 0-d array here
    return Driver("k2w1", [two_regime_series(8, 1, 3)], W=1, K=2, beta=1.0, m=2, biased=True)


@driver("k2w1u")
def _k2w1u(seed):
    return Driver("k2w1u", [two_regime_series(8, 1, 7)], W=1, K=2, beta=1.0, m=2, biased=False)


@driver("k4col")
def _k4col(seed):
    # four clusters, a switching cost that collapses everything into one cluster in round 0: three clusters need a
    # refill in round 1 and the single donor (7 windows, m=2) can serve only two of them
    return Driver("k4col", [two_regime_series(8, 1, 3)], W=2, K=4, beta=1e9, m=2)


@driver("k4col9")
def _k4col9(seed):
    # same with 9 windows: the donor can serve all three
    return Driver("k4col9", [two_regime_series(10, 1, 3)], W=2, K=4, beta=1e9, m=2)


@driver("k2w3")
def _k2w3(seed):
    return Driver("k2w3", [two_regime_series(10, 1, 13)], W=3, K=2, beta=1.5, m=2)


@driver("k3a")
def _k3a(seed):
    return Driver("k3a", [three_regime_series(8, 1, 17)], W=2, K=3, beta=1.0, m=1, biased=True)


@driver("k3b")
def _k3b(seed):
    return Driver("k3b", [three_regime_series(9, 1, 19)], W=2, K=3, beta=2.0, m=2)


@driver("k2seed")
def _k2seed(seed):
    # the one seed-dependent instance
    return Driver("k2seed", [two_regime_series(9, 1, 1000 + seed)], W=2, K=2, beta=1.0, m=2)


@driver("j2")
def _j2(seed):
    # joint: regimes change AT the boundary
    a = two_regime_series(5, 1, 23, split=5)             # all regime A
    b = np.round(np.random.default_rng(29).normal(2.5, 0.6, size=(6, 1)), 3)   # all regime B
    return Driver("j2", [a, b], W=2, K=2, beta=1.0, m=2, joint=True)


@driver("j3")
def _j3(seed):
    rng = np.random.default_rng(31)
    a = np.round(rng.normal(0.0, 1.0, size=(4, 1)), 3)
    b = np.round(rng.normal(2.5, 0.6, size=(5, 1)), 3)
    c = np.round(rng.normal(0.0, 1.0, size=(3, 1)), 3)
    return Driver("j3", [a, b, c], W=2, K=2, beta=2.0, m=2, joint=True)


@driver("j3mask")
def _j3mask(seed):
    # the same three series with the caller passing beta x mask itself (zeros at the pairs that straddle two series)
    d = _j3(seed)
    beta = np.full(d.Tp, 2.0)
    for b in d.boundaries():
        beta[b] = 0.0
    return Driver("j3mask", d.series, W=2, K=2, beta=beta, m=2, joint=True)


@driver("j4mask")
def _j4mask(seed):
    # four short series whose last point prefers the other cluster, per-pair cost beta x mask
    rng = np.random.default_rng(41)
    ser = []
    for i, n in enumerate((3, 2, 3, 2)):
        x = np.round(rng.normal(0.0 if i % 2 == 0 else 2.5, 0.5, size=(n, 1)), 3)
        x[-1, 0] = 2.5 if i % 2 == 0 else 0.0
        ser.append(x)
    d = Driver("tmp", ser, W=1, K=2, beta=1.5, m=2, joint=True)
    beta = np.full(d.Tp, 1.5)
    for b in d.boundaries():
        beta[b] = 0.0
    return Driver("j4mask", ser, W=1, K=2, beta=beta, m=2, joint=True)


@driver("j1")
def _j1(seed):
    # joint labelling of a single series (== single-series front end)
    return Driver("j1", [two_regime_series(9, 1, 3)], W=2, K=2, beta=1.0, m=2, joint=True)


@driver("j2zero")
def _j2zero(seed):
    a = two_regime_series(5, 1, 23, split=5)
    b = np.round(np.random.default_rng(29).normal(2.5, 0.6, size=(6, 1)), 3)
    return Driver("j2zero", [a, b], W=2, K=2, beta=0.0, m=2, joint=True)
