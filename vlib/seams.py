"""Harness-side seams: scripted environment answers and recording proxies.

Nothing here touches /repo: every substitution is a module attribute of the
package as imported in the checking process.
"""
import contextlib
import functools
import hashlib
import pickle
import random as _pyrandom

import numpy as np

from vlib.ctx import HarnessError


# ====================================================================== virtual pool
class VResult:
    def __init__(self, pool, idx):
        self.pool = pool
        self.idx = idx

    def get(self, timeout=None):
        self.pool._demand(self.idx)
        kind, val = self.pool._results[self.idx]
        if kind == "exc":
            raise val
        return val

    def wait(self, timeout=None):
        self.pool._demand(self.idx)

    def ready(self):
        return self.pool._poll(self.idx)

    def successful(self):
        if not self.pool._poll(self.idx):
            raise ValueError("not ready")
        return self.pool._results[self.idx][0] == "ok"


class VirtualPool:
    """In-process stand-in for multiprocessing.Pool with the same copy
    semantics (arguments and results travel through pickle) and a scripted
    schedule.  Tasks submitted since the previous batch form a *batch* (one
    round of the main loop).  The script of a batch is (perm, eager):
    the tasks complete in the order perm; the first `eager` of them have
    completed by the time the parent first looks at any result; the others
    complete only when the parent blocks on one of them (.get/.wait complete
    tasks in perm order up to the requested one) or polls (.ready answers,
    then one more task completes).  This covers every state "a prefix of the
    completion order has finished" that a gather routine can observe.

    orders: dict batch_index -> perm  or  (perm, eager); missing = submission
            order, all eager.
    fault:  (batch_index, position, exception instance) or None.
    """

    def __init__(self, processes=None, orders=None, fault=None, log=None):
        self.processes = processes
        self.orders = orders or {}
        self.fault = fault
        self.log = log if log is not None else []
        self._tasks = []
        self._results = {}
        self._batch_start = 0      # first task of the open batch
        self._batch_end = 0        # one past the last task of the open batch
        self._queue = []           # remaining completion order (absolute indices) of the open batch
        self._batch_no = 0
        self._last_order = []
        self.closed = False
        self.terminated = False
        self.joined = False

    # -- submission
    def apply_async(self, func, args=(), kwds=None, callback=None, error_callback=None):
        if self.closed or self.terminated:
            raise ValueError("Pool not running")
        kwds = kwds or {}
        payload = pickle.loads(pickle.dumps((tuple(args), dict(kwds))))
        self._tasks.append((func, payload, callback, error_callback))
        return VResult(self, len(self._tasks) - 1)

    def apply(self, func, args=(), kwds=None):
        return self.apply_async(func, args, kwds).get()

    def map_async(self, func, iterable, chunksize=None, callback=None, error_callback=None):
        rs = [self.apply_async(func, (x,)) for x in iterable]
        return _VMulti(rs)

    def map(self, func, iterable, chunksize=None):
        return self.map_async(func, iterable).get()

    def starmap_async(self, func, iterable, chunksize=None, callback=None, error_callback=None):
        rs = [self.apply_async(func, tuple(x)) for x in iterable]
        return _VMulti(rs)

    def starmap(self, func, iterable, chunksize=None):
        return self.starmap_async(func, iterable).get()

    def imap(self, func, iterable, chunksize=1):
        rs = [self.apply_async(func, (x,)) for x in iterable]
        return (r.get() for r in rs)

    def imap_unordered(self, func, iterable, chunksize=1):
        rs = [self.apply_async(func, (x,)) for x in iterable]
        self._open()
        order = [i - self._batch_start for i in self._last_order]
        base = self._batch_start
        return (rs[i].get() for i in order if 0 <= i < len(rs))

    # -- execution
    def _open(self):
        """freeze the tasks submitted so far into a batch (if the previous one is finished)"""
        if self._queue:
            if self._batch_end == len(self._tasks):
                return
            self._drain()                   # new submissions while a batch is open: finish the old one first
        if self._batch_end == len(self._tasks):
            return
        self._batch_start = self._batch_end
        self._batch_end = len(self._tasks)
        n = self._batch_end - self._batch_start
        script = self.orders.get(self._batch_no)
        eager = n
        if script is None:
            perm = list(range(n))
        elif len(script) == 2 and isinstance(script[0], (list, tuple)):
            perm, eager = list(script[0]), int(script[1])
        else:
            perm = list(script)
        if sorted(perm) != list(range(n)) or not 0 <= eager <= n:
            raise HarnessError(f"schedule script {script} does not fit a batch of {n} tasks")
        self._queue = [self._batch_start + p for p in perm]
        self._last_order = list(self._queue)
        self._this_batch = self._batch_no
        self._batch_no += 1
        for _ in range(eager):
            self._complete_next()

    def _complete_next(self):
        idx = self._queue.pop(0)
        pos = idx - self._batch_start
        func, (args, kwds), cb, ecb = self._tasks[idx]
        self.log.append(("run", self._this_batch, pos))
        try:
            if self.fault is not None and self.fault[0] == self._this_batch and self.fault[1] == pos:
                raise pickle.loads(pickle.dumps(self.fault[2]))
            val = func(*args, **kwds)
            val = pickle.loads(pickle.dumps(val))
            self._results[idx] = ("ok", val)
            if cb:
                cb(val)
        except HarnessError:
            raise
        except Exception as e:           # like the real pool: shipped back, re-raised at get()
            self._results[idx] = ("exc", e)
            if ecb:
                ecb(e)

    def _drain(self):
        while self._queue:
            self._complete_next()

    def _demand(self, idx):
        self._open()
        while idx not in self._results:
            if not self._queue:
                raise HarnessError(f"task {idx} is not in any batch")
            self._complete_next()

    def _poll(self, idx):
        self._open()
        if idx in self._results:
            return True
        if self._queue:
            self._complete_next()           # time passes while the parent polls
            return False if idx not in self._results else False
        return False

    def _flush(self):
        self._open()
        self._drain()

    # -- life cycle
    def close(self):
        self.closed = True
        self.log.append(("close",))

    def terminate(self):
        self.terminated = True
        self.log.append(("terminate",))

    def join(self):
        if not (self.closed or self.terminated):
            raise ValueError("Pool is still running")
        if self.closed and not self.terminated:
            self._flush()                   # close+join lets outstanding work finish
        self.joined = True
        self.log.append(("join",))

    def __enter__(self):
        return self

    def __exit__(self, *exc):
        self.terminate()


class _VMulti:
    def __init__(self, rs):
        self.rs = rs

    def get(self, timeout=None):
        return [r.get() for r in self.rs]

    def wait(self, timeout=None):
        for r in self.rs:
            r.wait()

    def ready(self):
        return all(r.ready() for r in self.rs)


# ====================================================================== donor draw
class ScriptedRandom(_pyrandom.Random):
    """Stands in for the `random` module inside cluster_maintenance.
    .sample(pop, k) returns the scripted index subset (default: first k);
    every consultation is logged.  Any other use is recorded as unscripted."""

    def __init__(self):
        super().__init__(12345)
        self.script = []
        self.log = []
        self.unscripted = []
        self.default_mode = "first"

    def reset(self, script=()):
        self.script = [tuple(s) for s in script]
        self.log = []
        self.unscripted = []
        self.seed(12345)

    def sample(self, population, k, *, counts=None):
        pop = list(population)
        n = len(pop)
        if self.script:
            choice = self.script.pop(0)
            if len(choice) != k or any(not 0 <= i < n for i in choice) or len(set(choice)) != k:
                raise HarnessError(f"donor script {choice} does not fit sample({n},{k})")
        else:
            if k > n:
                raise ValueError("Sample larger than population or is negative")
            choice = tuple(range(k)) if self.default_mode == "first" else tuple(range(n - k, n))
        self.log.append((n, k, tuple(choice)))
        return [pop[i] for i in choice]

    def _note(self, name):
        self.unscripted.append(name)

    def shuffle(self, x):
        self._note("shuffle")
        return super().shuffle(x)

    def choice(self, seq):
        self._note("choice")
        return super().choice(seq)

    def choices(self, *a, **k):
        self._note("choices")
        return super().choices(*a, **k)

    def randrange(self, *a, **k):
        self._note("randrange")
        return super().randrange(*a, **k)

    def randint(self, a, b):
        self._note("randint")
        return super().randint(a, b)


# ====================================================================== digests
def _h(h, tag, o):
    h.update(tag.encode())
    if o is None:
        h.update(b"N")
    elif isinstance(o, np.ndarray):
        h.update(str(o.dtype).encode() + str(o.shape).encode())
        if o.dtype == object:
            h.update(repr(o.tolist()).encode())
        else:
            h.update(np.ascontiguousarray(o).tobytes())
    elif isinstance(o, (float, np.floating)):
        h.update(np.float64(o).tobytes())
    elif isinstance(o, (list, tuple)):
        h.update(b"[" + str(len(o)).encode())
        for x in o:
            _h(h, ",", x)
    else:
        h.update(repr(o).encode())


CLUSTER_FIELDS = ("computed_covariance", "empirical_covariance", "graphical_lasso_cost",
                  "inverse_covariance", "log_determinant", "stacked_data_mean", "train_inverse")
ARG_FIELDS = ("sparsity_weight", "iteration_limit", "label_switching_cost", "min_cluster_size",
              "min_meaningful_covariance", "num_clusters", "num_processors", "window_size",
              "biased_covariance")


def digest_cluster(c):
    h = hashlib.blake2b(digest_size=12)
    _h(h, "members", [int(i) for i in c.member_points])
    for f in CLUSTER_FIELDS:
        _h(h, f, getattr(c, f, None))
    return h.hexdigest()


def digest_args(a):
    h = hashlib.blake2b(digest_size=12)
    for f in ARG_FIELDS:
        _h(h, f, getattr(a, f, None))
    return h.hexdigest()


def digest_state(m, with_data=False):
    """Content digest of everything a phase could alter in a model state."""
    h = hashlib.blake2b(digest_size=16)
    pl = m.point_labels
    _h(h, "labels", None if pl is None else [int(x) for x in pl])
    _h(h, "cost", m.label_assignment_cost)
    _h(h, "pll", m.point_log_likelihood)
    _h(h, "nclusters", len(m.clusters))
    for c in m.clusters:
        h.update(digest_cluster(c).encode())
    h.update(digest_args(m.arguments).encode())
    if with_data:
        _h(h, "data", m.stacked_training_data)
    return h.hexdigest()


def describe_state_diff(m, before_parts):
    """before_parts from snapshot_parts(); names of what changed."""
    after = snapshot_parts(m)
    return [k for k in before_parts if before_parts[k] != after.get(k)]


def snapshot_parts(m):
    parts = {}
    pl = m.point_labels
    parts["labels"] = None if pl is None else tuple(int(x) for x in pl)
    parts["cost"] = None if m.label_assignment_cost is None else np.float64(m.label_assignment_cost).tobytes()
    parts["nclusters"] = len(m.clusters)
    parts["args"] = digest_args(m.arguments)
    for k, c in enumerate(m.clusters):
        parts[f"cluster{k}.members"] = tuple(int(i) for i in c.member_points)
        for f in CLUSTER_FIELDS:
            h = hashlib.blake2b(digest_size=8)
            _h(h, f, getattr(c, f, None))
            parts[f"cluster{k}.{f}"] = h.hexdigest()
    return parts


def rng_states():
    s = np.random.get_state()
    return (s[0], s[1].tobytes(), s[2], s[3], s[4]), _pyrandom.getstate()


# ====================================================================== patching
@contextlib.contextmanager
def patched(*triples):
    """patched((module, 'name', replacement), ...)"""
    saved = []
    try:
        for (mod, name, new) in triples:
            saved.append((mod, name, getattr(mod, name)))
            setattr(mod, name, new)
        yield
    finally:
        for (mod, name, old) in reversed(saved):
            setattr(mod, name, old)


def find_state(args, kwargs):
    from fast_ticc.containers import model_state
    for a in list(args) + list(kwargs.values()):
        if isinstance(a, model_state.ModelState):
            return a
    return None


class Tracer:
    """Recording proxies on the phase functions of the main loop, the labelling
    step, the optimiser entry point and the metric functions.  install() once
    per process; begin() before each run."""

    PHASES = (("repop", "cluster_maintenance", "repopulate_empty_clusters"),
              ("stats", "cluster_maintenance", "update_all_cluster_statistics"),
              ("opt", "graphical_lasso", "optimize_markov_random_fields"),
              ("relabel", "cluster_label_assignment", "predict_cluster_labels"),
              ("bic", "cluster_metrics", "bayesian_information_criterion"),
              ("ch", "cluster_metrics", "calinski_harabasz_index"),
              ("cll", "main_loop", "_compute_log_likelihood_by_cluster"))

    def __init__(self):
        self.installed = False
        self.events = []
        self.label_calls = []
        self.admm_calls = []
        self.sampler = ScriptedRandom()
        self.init_labels = None
        self.pool_factory = None
        self.pools = []
        self.phase_fault = None       # (round, phase name, exception)
        self.deep = True              # digest inputs before/after
        self._round = -1
        self.relabel_script = None
        self.relabel_log = []

    # ------------------------------------------------------------------
    def install(self):
        if self.installed:
            return
        import fast_ticc
        from fast_ticc import (cluster_label_assignment, cluster_maintenance, cluster_metrics,
                               graphical_lasso, main_loop, admm)
        from fast_ticc.admm import front_end as admm_front
        mods = {"cluster_maintenance": cluster_maintenance, "graphical_lasso": graphical_lasso,
                "cluster_label_assignment": cluster_label_assignment,
                "cluster_metrics": cluster_metrics, "main_loop": main_loop}
        self.orig = {}
        for (tag, modname, fname) in self.PHASES:
            mod = mods[modname]
            orig = getattr(mod, fname)
            self.orig[tag] = orig
            setattr(mod, fname, self._phase_proxy(tag, orig))
        # labelling step
        self.orig["assign"] = cluster_label_assignment.assign_point_cluster_labels
        cluster_label_assignment.assign_point_cluster_labels = self._assign_proxy(self.orig["assign"])
        # optimiser entry point: both names, same object (pickle by reference)
        self.orig["admm"] = admm_front.admm_optimize_theta
        w = self._admm_proxy(self.orig["admm"])
        admm_front.admm_optimize_theta = w
        admm.admm_optimize_theta = w
        # environment answers
        self.orig["init"] = cluster_label_assignment.build_initial_clusters
        cluster_label_assignment.build_initial_clusters = self._init_proxy(self.orig["init"])
        self.orig["random"] = cluster_maintenance.random
        cluster_maintenance.random = self.sampler
        self.orig["pool"] = main_loop._init_task_pool
        main_loop._init_task_pool = self._pool_proxy(self.orig["pool"])
        self.installed = True

    def begin(self, init_labels=None, donor_script=(), pool_factory="virtual", phase_fault=None,
              orders=None, task_fault=None, real_random=False):
        # real_random: leave the donor draw to the library's own global generator (C14, C20)
        from fast_ticc import cluster_maintenance
        cluster_maintenance.random = self.orig["random"] if real_random else self.sampler
        self.events = []
        self.label_calls = []
        self.admm_calls = []
        self.pools = []
        self.init_labels = None if init_labels is None else list(init_labels)
        self.sampler.reset(donor_script)
        self.pool_factory = pool_factory
        self.pool_orders = orders
        self.pool_fault = task_fault
        self.phase_fault = phase_fault
        self._round = -1
        self.relabel_script = None
        self.relabel_log = []
        self.init_mismatch = None

    # ------------------------------------------------------------------ proxies
    def _phase_proxy(self, tag, orig):
        @functools.wraps(orig)
        def proxy(*args, **kwargs):
            st = find_state(args, kwargs)
            if tag == "stats":
                self._round += 1
            rnd = self._round + (1 if tag == "repop" else 0)
            ev = {"phase": tag, "round": rnd, "in": st}
            if st is not None and self.deep:
                ev["in_before"] = snapshot_parts(st)
            if tag == "repop":
                ev["sampler_mark"] = len(self.sampler.log)
            if self.phase_fault is not None and self.phase_fault[0] == rnd and self.phase_fault[1] == tag:
                self.events.append(ev)
                ev["faulted"] = True
                raise self.phase_fault[2]
            try:
                if tag == "relabel" and self.relabel_script is not None:
                    out = self._scripted_relabel(st, orig, args, kwargs)
                else:
                    out = orig(*args, **kwargs)
            except BaseException as e:
                ev["raised"] = e
                if st is not None and self.deep:
                    ev["in_changed"] = describe_state_diff(st, ev["in_before"])
                self.events.append(ev)
                raise
            ev["out"] = out
            if st is not None and self.deep:
                ev["in_changed"] = describe_state_diff(st, ev["in_before"])
            if self.deep and hasattr(out, "clusters") and hasattr(out, "point_labels"):
                ev["out_parts"] = snapshot_parts(out)
            if tag == "repop":
                ev["sampler_used"] = self.sampler.log[ev["sampler_mark"]:]
            self.events.append(ev)
            return out
        return proxy

    def _scripted_relabel(self, st, orig, args, kwargs):
        """environment answer for the relabel phase: the real phase runs (so the model it returns is a
        genuine one), then its labelling and cost are replaced by the next scripted ones - the main loop's
        control decisions can then be explored over ALL label sequences, independently of the data"""
        if not self.relabel_script:
            raise HarnessError("relabel script exhausted")
        labels = list(self.relabel_script.pop(0))
        out = orig(*args, **kwargs)
        new = out.shallow_copy()
        new.clusters = [c.deep_copy() for c in out.clusters]
        new.point_labels = labels
        new.label_assignment_cost = float(1000 + len(self.relabel_log))
        self.relabel_log.append(tuple(labels))
        return new

    def _assign_proxy(self, orig):
        def proxy(*args, **kwargs):
            table = kwargs.get("label_assignment_cost", args[0] if args else None)
            beta = kwargs.get("label_switching_cost", args[1] if len(args) > 1 else None)
            rec = {"round": self._round, "table": np.array(table, copy=True),
                   "beta": np.array(beta, copy=True) if isinstance(beta, np.ndarray) else beta}
            out = orig(*args, **kwargs)
            rec["labels"] = [int(x) for x in out[0]]
            rec["cost"] = float(out[1])
            self.label_calls.append(rec)
            return out
        return proxy

    def _admm_proxy(self, orig):
        @functools.wraps(orig)
        def proxy(*args, **kwargs):
            rec = {"round": self._round, "args": args, "kwargs": dict(kwargs)}
            self.admm_calls.append(rec)
            res = orig(*args, **kwargs)
            try:
                rec["result"] = np.array(res.theta, copy=True)
            except AttributeError:
                pass
            return res
        return proxy

    def _init_proxy(self, orig):
        @functools.wraps(orig)
        def proxy(num_clusters, data, *a, **k):
            if self.init_labels is None:
                return orig(num_clusters, data, *a, **k)
            if len(self.init_labels) != len(data):
                # the library stacked a different number of windows than the driver expects: that is for
                # the check's oracle to report (not a harness failure) - answer with a contiguous-block
                # labelling of the right length so that the run can go on
                self.init_mismatch = (len(self.init_labels), len(data))
                n = len(data)
                return [min(num_clusters - 1, (i * num_clusters) // max(1, n)) for i in range(n)]
            return list(self.init_labels)
        return proxy

    def _pool_proxy(self, orig):
        @functools.wraps(orig)
        def proxy(num_processes, *a, **k):
            if self.pool_factory == "virtual":
                p = VirtualPool(num_processes, orders=self.pool_orders, fault=self.pool_fault)
            elif self.pool_factory == "real":
                p = orig(num_processes, *a, **k)
            else:
                p = self.pool_factory(orig, num_processes)
            self.pools.append(p)
            return p
        return proxy

    # ------------------------------------------------------------------ views
    def rounds(self):
        """events grouped per round: list of dicts tag->event (repop optional)"""
        out = []
        for ev in self.events:
            if ev["phase"] in ("bic", "ch", "cll"):
                continue
            r = ev["round"]
            while len(out) <= r:
                out.append({})
            out[r].setdefault(ev["phase"], ev)
            out[r].setdefault("_order", []).append(ev["phase"])
        return out

    def final_state(self):
        for ev in self.events:
            if ev["phase"] == "bic":
                return ev["in"]
        return None


TRACER = Tracer()
