"""E4 on the real multiprocessing.Pool: forced completion orders (turn-taking
handshake on a counter shared before the fork), injected task faults, and a
one-task-per-fresh-process runner."""
import itertools
import multiprocessing
import os
import pickle
import signal
import time
import traceback

from vlib.ctx import HarnessError

_MP = multiprocessing.get_context("fork")

# created in the process that will create the pool, BEFORE the pool forks its
# workers, so that the workers inherit it
_TURN = None
_PLAN = None     # dict: 'rank': {(round, idx): global rank}, 'fault': {(round, idx): exception}


def _trampoline(tag, func, args, kwds):
    """runs in a pool worker"""
    plan = _PLAN
    fault = plan["fault"].get(tag)
    if fault is not None:
        raise fault
    res = func(*args, **kwds)
    rank = plan["rank"].get(tag)
    if rank is not None:
        deadline = time.time() + 50
        while _TURN.value < rank:
            if time.time() > deadline:
                raise HarnessError(f"turn {rank} for task {tag} never came (counter {_TURN.value})")
            time.sleep(0.0005)
    return (os.getpid(), res)


class _Tagged:
    def __init__(self, inner):
        self.inner = inner

    def get(self, timeout=None):
        pid_res = self.inner.get(timeout)
        return pid_res[1]

    def wait(self, timeout=None):
        return self.inner.wait(timeout)

    def ready(self):
        return self.inner.ready()

    def successful(self):
        return self.inner.successful()


class TaggingPool:
    """Proxy around the real pool: tags each task (round, index), forces the
    scripted arrival order, injects faults; everything else is delegated."""

    def __init__(self, real, K, orders=None, faults=None):
        self.real = real
        self.K = K
        self.n = 0
        self.arrivals = []
        self.pids = {}

    def apply_async(self, func, args=(), kwds=None, callback=None, error_callback=None):
        tag = (self.n // self.K, self.n % self.K)
        self.n += 1

        def arrived_ok(v, _tag=tag):
            self.arrivals.append(_tag)
            self.pids[_tag] = v[0]
            with _TURN.get_lock():
                _TURN.value += 1
            if callback:
                callback(v[1])

        def arrived_err(e, _tag=tag):
            self.arrivals.append(_tag)
            with _TURN.get_lock():
                _TURN.value += 1
            if error_callback:
                error_callback(e)
        inner = self.real.apply_async(_trampoline, (tag, func, tuple(args), dict(kwds or {})),
                                      callback=arrived_ok, error_callback=arrived_err)
        return _Tagged(inner)

    def __getattr__(self, name):
        return getattr(self.real, name)


def make_factory(K, orders=None, faults=None, log=None):
    """pool factory for seams.Tracer.pool_factory: (orig_init_task_pool, num_processes) -> pool
    orders: dict round -> permutation of range(K) (completion order); faults: dict (round, idx) -> exception"""
    def factory(orig, num_processes):
        global _TURN, _PLAN
        _TURN = _MP.Value("i", 0)
        rank = {}
        for r, perm in (orders or {}).items():
            for pos, idx in enumerate(perm):
                rank[(r, idx)] = r * K + pos
        # rounds without a script: no waiting
        _PLAN = {"rank": rank, "fault": dict(faults or {})}
        real = orig(num_processes)
        tp = TaggingPool(real, K)
        if log is not None:
            log.append(tp)
        return tp
    return factory


def feasible(perm, P):
    """can the K tasks, submitted in index order to P workers, complete in this order?"""
    K = len(perm)
    started = set(range(min(P, K)))
    nxt = min(P, K)
    for t in perm:
        if t not in started:
            return False
        started.discard(t)
        if nxt < K:
            started.add(nxt)
            nxt += 1
    return True


def feasible_perms(K, P):
    return [p for p in itertools.permutations(range(K)) if feasible(p, P)]


def live_children():
    """pids of live (non-zombie) children of this process, from /proc"""
    me = os.getpid()
    out = []
    for name in os.listdir("/proc"):
        if not name.isdigit():
            continue
        try:
            with open(f"/proc/{name}/stat") as f:
                s = f.read()
        except OSError:
            continue
        rp = s.rfind(")")
        fields = s[rp + 2:].split()
        if len(fields) > 1 and int(fields[1]) == me and fields[0] != "Z":
            out.append(int(name))
    return out


# ---------------------------------------------------------------------- fresh-process runner
def _child(fn, task, conn, timeout):
    def on_alarm(signum, frame):
        raise TimeoutError(f"watchdog: no verdict within {timeout}s")
    signal.signal(signal.SIGALRM, on_alarm)
    signal.alarm(timeout)
    try:
        res = ("ok", fn(task))
    except BaseException as e:
        res = ("err", f"{type(e).__name__}: {e}\n{traceback.format_exc()}")
    finally:
        signal.alarm(0)
    try:
        conn.send_bytes(pickle.dumps(res))
    finally:
        conn.close()
        # do not run atexit handlers of the parent image
        os._exit(0)


def fresh_map(fn, tasks, jobs=16, timeout=120):
    """fn(task) in a brand-new forked process per task (nothing carried over
    between tasks); results in task order.  A crash is a harness error."""
    tasks = list(tasks)
    results = [None] * len(tasks)
    pending = list(enumerate(tasks))
    running = {}
    while pending or running:
        while pending and len(running) < jobs:
            i, t = pending.pop(0)
            rd, wr = _MP.Pipe(duplex=False)
            p = _MP.Process(target=_child, args=(fn, t, wr, timeout))
            p.start()
            wr.close()
            running[i] = (p, rd, time.time())
        done = []
        for i, (p, rd, t0) in running.items():
            if rd.poll(0.01):
                try:
                    results[i] = pickle.loads(rd.recv_bytes())
                except EOFError:
                    results[i] = ("err", "child died without a verdict")
                p.join()
                done.append(i)
            elif not p.is_alive():
                results[i] = ("err", f"child exited with {p.exitcode} without a verdict")
                done.append(i)
            elif time.time() - t0 > timeout + 30:
                p.kill()
                p.join()
                results[i] = ("err", "child killed by the outer watchdog")
                done.append(i)
        for i in done:
            running.pop(i)[1].close()
    out = []
    for r in results:
        if r[0] != "ok":
            raise HarnessError("fresh process failed: " + r[1])
        out.append(r[1])
    return out
