"""E4 on the real multiprocessing.Pool: forced completion orders (turn-taking
handshake on a counter shared before the fork), injected task faults, and a
one-task-per-fresh-process runner."""
import itertools
import multiprocessing
import os
import pickle
import signal
import time
import traceback

from vlib.ctx import HarnessError

_MP = multiprocessing.get_context("fork")

# created in the process that will create the pool, BEFORE the pool forks its
# workers, so that the workers inherit them
_TURN = None     # number of results that have arrived in the parent (global, all rounds)
_ALLOW = None    # per round: how many tasks of the round's completion order may finish
_PLAN = None     # 'rank': {(round, idx): global rank}, 'pos': {(round, idx): position in its round's order},
                 # 'fault': {(round, idx): exception}
MAXROUNDS = 64


def _trampoline(tag, func, args, kwds):
    """runs in a pool worker"""
    plan = _PLAN
    fault = plan["fault"].get(tag)
    if fault is not None:
        raise fault
    res = func(*args, **kwds)
    rank = plan["rank"].get(tag)
    if rank is not None:
        pos = plan["pos"][tag]
        r = tag[0]
        deadline = time.time() + 50
        # finish only in the scripted order, and only once the parent has let this position through
        while _TURN.value < rank or (r < MAXROUNDS and _ALLOW[r] <= pos):
            if time.time() > deadline:
                raise HarnessError(f"turn {rank} for task {tag} never came (arrived {_TURN.value}, "
                                   f"allowed {_ALLOW[r] if r < MAXROUNDS else '-'})")
            time.sleep(0.0005)
    return (os.getpid(), res)


class _Tagged:
    def __init__(self, inner, pool, tag):
        self.inner = inner
        self.pool = pool
        self.tag = tag

    def get(self, timeout=None):
        self.pool._demand(self.tag)
        pid_res = self.inner.get(timeout)
        return pid_res[1]

    def wait(self, timeout=None):
        self.pool._demand(self.tag)
        return self.inner.wait(timeout)

    def ready(self):
        return self.pool._poll(self.tag, self.inner)

    def successful(self):
        return self.inner.successful()


class TaggingPool:
    """Proxy around the real pool: tags each task (round, index), forces the scripted schedule
    (arrival order, and how many tasks have finished when the parent first looks), injects faults;
    everything else is delegated."""

    def __init__(self, real, K):
        self.real = real
        self.K = K
        self.n = 0
        self.arrivals = []
        self.pids = {}

    # -- schedule control (parent side)
    def _arrived_in(self, r):
        return sum(1 for t in list(self.arrivals) if t[0] == r)

    def _settle(self, r):
        """wait until every task of round r that is allowed to finish has arrived"""
        if r >= MAXROUNDS or (r, 0) not in _PLAN["pos"]:
            return
        submitted = min(self.K, self.n - r * self.K)
        deadline = time.time() + 50
        while self._arrived_in(r) < min(_ALLOW[r], submitted):
            if time.time() > deadline:
                raise HarnessError(f"round {r}: {self._arrived_in(r)} arrivals, {_ALLOW[r]} allowed")
            time.sleep(0.0005)

    def _demand(self, tag):
        r = tag[0]
        if r >= MAXROUNDS or tag not in _PLAN["pos"]:
            return
        self._settle(r)
        if tag not in self.arrivals:
            pos = _PLAN["pos"][tag]
            if _ALLOW[r] < pos + 1:
                _ALLOW[r] = pos + 1          # the parent blocks on it: everything up to it may finish
            self._settle(r)

    def _poll(self, tag, inner):
        r = tag[0]
        if r >= MAXROUNDS or tag not in _PLAN["pos"]:
            return inner.ready()
        self._settle(r)
        if tag in self.arrivals:
            # the callback has run; the AsyncResult is set just before it
            return True
        if _ALLOW[r] < self.K:
            _ALLOW[r] = _ALLOW[r] + 1        # time passes while the parent polls
        return False

    def apply_async(self, func, args=(), kwds=None, callback=None, error_callback=None):
        tag = (self.n // self.K, self.n % self.K)
        self.n += 1

        def arrived_ok(v, _tag=tag):
            self.pids[_tag] = v[0]
            if callback:
                callback(v[1])
            self.arrivals.append(_tag)
            with _TURN.get_lock():
                _TURN.value += 1

        def arrived_err(e, _tag=tag):
            if error_callback:
                error_callback(e)
            self.arrivals.append(_tag)
            with _TURN.get_lock():
                _TURN.value += 1
        inner = self.real.apply_async(_trampoline, (tag, func, tuple(args), dict(kwds or {})),
                                      callback=arrived_ok, error_callback=arrived_err)
        return _Tagged(inner, self, tag)

    def __getattr__(self, name):
        return getattr(self.real, name)


def make_factory(K, orders=None, faults=None, log=None):
    """pool factory for seams.Tracer.pool_factory: (orig_init_task_pool, num_processes) -> pool
    orders: dict round -> permutation of range(K)  or  (permutation, eager): completion order and how
    many of its tasks have finished when the parent first inspects a result of that round (default: all);
    faults: dict (round, idx) -> exception"""
    def factory(orig, num_processes):
        global _TURN, _PLAN, _ALLOW
        _TURN = _MP.Value("i", 0)
        _ALLOW = _MP.Array("i", [K] * MAXROUNDS, lock=False)
        rank, posd = {}, {}
        for r, script in (orders or {}).items():
            if len(script) == 2 and isinstance(script[0], (list, tuple)):
                perm, eager = list(script[0]), int(script[1])
            else:
                perm, eager = list(script), K
            if r < MAXROUNDS:
                _ALLOW[r] = eager
            for pos, idx in enumerate(perm):
                rank[(r, idx)] = r * K + pos
                posd[(r, idx)] = pos
        # rounds without a script: no waiting
        _PLAN = {"rank": rank, "pos": posd, "fault": dict(faults or {})}
        real = orig(num_processes)
        import multiprocessing.pool
        if not isinstance(real, multiprocessing.pool.Pool):
            # the library chose something that is not a process pool (e.g. an in-process stand-in): there is no
            # completion order to script; hand it through untouched and let the result comparison decide
            if log is not None:
                log.append(None)
            return real
        tp = TaggingPool(real, K)
        if log is not None:
            log.append(tp)
        return tp
    return factory


def feasible(perm, P):
    """can the K tasks, submitted in index order to P workers, complete in this order?"""
    K = len(perm)
    started = set(range(min(P, K)))
    nxt = min(P, K)
    for t in perm:
        if t not in started:
            return False
        started.discard(t)
        if nxt < K:
            started.add(nxt)
            nxt += 1
    return True


def feasible_perms(K, P):
    return [p for p in itertools.permutations(range(K)) if feasible(p, P)]


def live_children():
    """pids of live (non-zombie) children of this process, from /proc"""
    me = os.getpid()
    out = []
    for name in os.listdir("/proc"):
        if not name.isdigit():
            continue
        try:
            with open(f"/proc/{name}/stat") as f:
                s = f.read()
        except OSError:
            continue
        rp = s.rfind(")")
        fields = s[rp + 2:].split()
        if len(fields) > 1 and int(fields[1]) == me and fields[0] != "Z":
            out.append(int(name))
    return out


# ---------------------------------------------------------------------- fresh-process runner
def _child(fn, task, conn, timeout):
    def on_alarm(signum, frame):
        raise TimeoutError(f"watchdog: no verdict within {timeout}s")
    signal.signal(signal.SIGALRM, on_alarm)
    signal.alarm(timeout)
    try:
        res = ("ok", fn(task))
    except BaseException as e:
        res = ("err", f"{type(e).__name__}: {e}\n{traceback.format_exc()}")
    finally:
        signal.alarm(0)
    try:
        conn.send_bytes(pickle.dumps(res))
    finally:
        conn.close()
        # do not run atexit handlers of the parent image
        os._exit(0)


def fresh_map(fn, tasks, jobs=16, timeout=120, on_timeout=None):
    """fn(task) in a brand-new forked process per task (nothing carried over
    between tasks); results in task order.  A crash is a harness error."""
    tasks = list(tasks)
    results = [None] * len(tasks)
    pending = list(enumerate(tasks))
    running = {}
    while pending or running:
        while pending and len(running) < jobs:
            i, t = pending.pop(0)
            rd, wr = _MP.Pipe(duplex=False)
            p = _MP.Process(target=_child, args=(fn, t, wr, timeout))
            p.start()
            wr.close()
            running[i] = (p, rd, time.time())
        done = []
        for i, (p, rd, t0) in running.items():
            if rd.poll(0.01):
                try:
                    results[i] = pickle.loads(rd.recv_bytes())
                except EOFError:
                    results[i] = ("err", "child died without a verdict")
                p.join()
                done.append(i)
            elif not p.is_alive():
                results[i] = ("err", f"child exited with {p.exitcode} without a verdict")
                done.append(i)
            elif time.time() - t0 > timeout + 30:
                p.kill()
                p.join()
                if on_timeout is not None:
                    results[i] = ("ok", on_timeout(tasks[i]))      # for fault scenarios a hang IS the verdict
                else:
                    results[i] = ("err", "child killed by the outer watchdog")
                done.append(i)
        for i in done:
            running.pop(i)[1].close()
    out = []
    for r in results:
        if r[0] != "ok":
            raise HarnessError("fresh process failed: " + r[1])
        out.append(r[1])
    return out
